#!/venv/bin/python
"""Re-write seeded/<name>/patch.diff against the current /repo tree after the library was repaired nearby.

For every patch that `git apply --check` refuses: apply it with `patch -p1` (fuzz allowed) to a scratch copy of the current
tree, regenerate a zero-offset diff, check that the patched package still imports, and run the change's demo.py against the
scratch copy (it must still fail, which shows the hunk landed where it was meant to).  Patches that do not apply even with fuzz are reported for a manual rewrite.
patch.orig.diff keeps the sub-agent's original."""
import glob, json, os, re, shutil, subprocess, sys, tempfile

HERE = os.path.dirname(os.path.dirname(os.path.abspath(__file__)))
HEAD = subprocess.check_output(['git', '-C', '/repo', 'log', '--format=%h', '-1'], text=True).strip()


def main():
    bad = 0
    for d in sorted(glob.glob(os.path.join(HERE, 'seeded', '*', 'patch.diff'))):
        name = os.path.basename(os.path.dirname(d))
        if subprocess.run(['git', '-C', '/repo', 'apply', '--check', d], capture_output=True).returncode == 0:
            continue
        root = tempfile.mkdtemp(prefix='fxrb_')
        try:
            shutil.copytree('/repo/fxpmath', root + '/a/fxpmath')
            shutil.copytree('/repo/fxpmath', root + '/b/fxpmath')
            r = subprocess.run(['patch', '-p1', '-i', d], cwd=root + '/b', capture_output=True, text=True)
            if r.returncode != 0:
                print('MANUAL  %-46s %s' % (name, ' '.join(r.stdout.split())[:160]))
                bad += 1
                continue
            for f in glob.glob(root + '/b/fxpmath/*.orig') + glob.glob(root + '/b/fxpmath/*.rej'):
                os.remove(f)
            imp = subprocess.run(['/venv/bin/python', '-c', 'import fxpmath'], cwd='/tmp', env=dict(os.environ, PYTHONPATH=root + '/b'), capture_output=True, text=True)
            if imp.returncode != 0:
                print('MANUAL  %-46s applies with fuzz but the patched tree does not import (hunk landed at a wrong indentation)' % name)
                bad += 1
                continue
            demo = subprocess.run(['/venv/bin/python', os.path.join(os.path.dirname(d), 'demo.py')], cwd=root, env=dict(os.environ, PYTHONPATH=root + '/b'),
                                  capture_output=True, text=True)
            if demo.returncode == 0:
                print('MANUAL  %-46s applies with fuzz but its demo no longer fails (hunk landed elsewhere?)' % name)
                bad += 1
                continue
            r = subprocess.run(['diff', '-ruN', 'a/fxpmath', 'b/fxpmath'], cwd=root, capture_output=True, text=True)
            out = re.sub(r'^diff -ruN (a/\S+) (b/\S+)$', r'diff --git \1 \2', r.stdout, flags=re.M)
            out = re.sub(r'^(---|\+\+\+) (\S+)\t.*$', r'\1 \2', out, flags=re.M)
            dd = os.path.dirname(d)
            if not os.path.exists(dd + '/patch.orig.diff'):
                shutil.copy(d, dd + '/patch.orig.diff')
            open(d, 'w').write(out)
            m = json.load(open(dd + '/meta.json'))
            m['rebased_onto'] = HEAD
            json.dump(m, open(dd + '/meta.json', 'w'), indent=1)
            print('rebased %-46s (%s)' % (name, ' '.join(l for l in r.stdout.splitlines() if l.startswith('@@'))[:60]))
        finally:
            shutil.rmtree(root, ignore_errors=True)
    return 1 if bad else 0


if __name__ == '__main__':
    sys.exit(main())
