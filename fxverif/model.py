"""Exact reference model of fractional fixed-point arithmetic.

Only Python ``int`` and ``fractions.Fraction`` are used here: this module never
imports numpy or fxpmath, so it shares neither code nor numeric types with the
implementation under test.
"""
from fractions import Fraction
import math

ROUNDINGS = ('trunc', 'around', 'floor', 'ceil', 'fix')
OVERFLOWS = ('saturate', 'wrap')


# ---------------------------------------------------------------- formats
def rng(signed, n_word):
    """(lo, hi) integer code range of an n_word-bit word."""
    if signed:
        return -(1 << (n_word - 1)), (1 << (n_word - 1)) - 1
    return 0, (1 << n_word) - 1


def n_int_of(signed, n_word, n_frac):
    return n_word - n_frac - (1 if signed else 0)


def pow2(e):
    """2**e as an exact Fraction for any integer e."""
    return Fraction(1 << e) if e >= 0 else Fraction(1, 1 << -e)


def value_of(code, n_frac):
    return Fraction(code) * pow2(-n_frac)


def scaled(v, n_frac):
    """v * 2^n_frac exactly."""
    return Fraction(v) * pow2(n_frac)


def dtype_str(signed, n_word, n_frac, cplx=False, notation='fxp'):
    if notation == 'Q':
        return '{}{}.{}'.format('Q' if signed else 'UQ', n_word - n_frac, n_frac)
    return 'fxp-{}{}/{}{}'.format('s' if signed else 'u', n_word, n_frac, '-complex' if cplx else '')


# ---------------------------------------------------------------- rounding
def ROUND(x, mode):
    """Round the exact rational x to an integer under the named rule."""
    x = Fraction(x)
    fl = x.numerator // x.denominator
    if x.denominator == 1:
        return fl
    if mode == 'floor':
        return fl
    if mode == 'ceil':
        return fl + 1
    if mode in ('trunc', 'fix'):
        return fl if x > 0 else fl + 1
    if mode == 'around':
        r = x - fl
        if r < Fraction(1, 2):
            return fl
        if r > Fraction(1, 2):
            return fl + 1
        return fl if fl % 2 == 0 else fl + 1
    raise ValueError(mode)


def OVERFLOW(k, signed, n_word, mode):
    lo, hi = rng(signed, n_word)
    if mode == 'saturate':
        return lo if k < lo else hi if k > hi else k
    if mode == 'wrap':
        m = 1 << n_word
        u = k % m
        if signed and u >= (m >> 1):
            u -= m
        return u
    raise ValueError(mode)


def quant(v, signed, n_word, n_frac, rounding, overflow):
    """Quantize exact real v.  Returns (code, ovf, unf, inexact)."""
    lo, hi = rng(signed, n_word)
    r = ROUND(scaled(v, n_frac), rounding)
    code = OVERFLOW(r, signed, n_word, overflow)
    return code, r > hi, r < lo, value_of(code, n_frac) != Fraction(v)


def quant_code(k_scaled_num, k_scaled_den, signed, n_word, rounding, overflow):
    """Same as quant but on an already scaled rational num/den."""
    lo, hi = rng(signed, n_word)
    r = ROUND(Fraction(k_scaled_num, k_scaled_den), rounding)
    return OVERFLOW(r, signed, n_word, overflow), r > hi, r < lo


# ---------------------------------------------------------------- two's complement
def twos(k, n_word):
    return k % (1 << n_word)


def resign(u, signed, n_word):
    u %= (1 << n_word)
    if signed and u >= (1 << (n_word - 1)):
        u -= (1 << n_word)
    return u


def bin_image(k, n_word, n_frac=None, prefix=None):
    s = format(twos(k, n_word), '0{}b'.format(n_word))
    if n_frac is not None:
        if 0 < n_frac < n_word:
            s = s[:-n_frac] + '.' + s[-n_frac:]
        elif n_frac == 0:
            s = s + '.'
        elif n_frac == n_word:
            s = '.' + s
    if prefix:
        s = prefix + s
    return s


def hex_image(k, n_word, prefix='0x'):
    return prefix + format(twos(k, n_word), '0{}X'.format(-(-n_word // 4)))


_DIGITS = '0123456789ABCDEFGHIJKLMNOPQRSTUVWXYZ'


def sign_magnitude(k, base):
    if k == 0:
        return '0'
    n, out = abs(k), ''
    while n:
        out = _DIGITS[n % base] + out
        n //= base
    return ('-' if k < 0 else '') + out


# ---------------------------------------------------------------- growth rules (README / docs/config.md)
def fmt_add(fx, fy):
    (sx, wx, fx_), (sy, wy, fy_) = fx, fy
    s = bool(sx or sy)
    n_int = max(n_int_of(*fx), n_int_of(*fy)) + 1
    f = max(fx_, fy_)
    return (s, int(s) + n_int + f, f)


fmt_sub = fmt_add


def fmt_mul(fx, fy):
    s = bool(fx[0] or fy[0])
    return (s, fx[1] + fy[1], fx[2] + fy[2])


def fmt_truediv(fx, fy):
    s = bool(fx[0] or fy[0])
    n_int = n_int_of(*fx) + fy[2] + int(s)
    f = fx[2] + n_int_of(*fy)
    return (s, int(s) + n_int + f, f)


def fmt_floordiv(fx, fy):
    s = bool(fx[0] or fy[0])
    n_int = n_int_of(*fx) + fy[2] + int(s)
    return (s, int(s) + n_int, 0)


def fmt_mod(fx, fy):
    s = bool(fx[0] or fy[0])
    n_int = max(n_int_of(*fx), n_int_of(*fy)) if s else min(n_int_of(*fx), n_int_of(*fy))
    f = max(fx[2], fy[2])
    return (s, int(s) + n_int + f, f)


def ceil_log2(n):
    return 0 if n <= 1 else (n - 1).bit_length()


def fmt_sum(fx, n):
    return (bool(fx[0]), fx[1] + ceil_log2(n), fx[2])


def fmt_prod(fx, n):
    return (bool(fx[0]), fx[1] * n, fx[2] * n)


def fmt_dot(fx, fy, n):
    s = bool(fx[0] or fy[0])
    return (s, fx[1] + fy[1] + ceil_log2(n), fx[2] + fy[2])


def fmt_sizing(policy, fx, fy, optimal):
    """Result format for an op_sizing policy (docs/config.md)."""
    s = bool(fx[0] or fy[0])
    if policy == 'optimal':
        return optimal
    if policy == 'same':
        n_int, f = n_int_of(*fx), fx[2]
    elif policy == 'largest':
        n_int, f = max(n_int_of(*fx), n_int_of(*fy)), max(fx[2], fy[2])
    elif policy == 'smallest':
        n_int, f = min(n_int_of(*fx), n_int_of(*fy)), min(fx[2], fy[2])
    else:
        raise ValueError(policy)
    return (s, int(s) + n_int + f, f)


# ---------------------------------------------------------------- size inference (C06)
def frac_bits_needed(v):
    """Fewest fraction bits that make the dyadic rational v exact (>= 0)."""
    v = Fraction(v)
    d = v.denominator
    if d & (d - 1):
        raise ValueError('not dyadic')
    return d.bit_length() - 1


def int_bits_needed(codes, signed):
    """Fewest magnitude bits b (>=0) such that every code fits a word of b (+sign) bits."""
    b = 0
    while True:
        lo, hi = rng(signed, b + (1 if signed else 0)) if (b + (1 if signed else 0)) > 0 else (0, 0)
        if all(lo <= c <= hi for c in codes):
            return b
        b += 1


def minimal_format(values, signed):
    """Smallest (signed, n_word, n_frac) holding all dyadic values exactly, n_int >= 0."""
    f = max(frac_bits_needed(v) for v in values)
    codes = [int(Fraction(v) * (1 << f)) for v in values]
    b = int_bits_needed(codes, signed)          # magnitude bits for the scaled codes
    n_int = max(b - f, 0)
    return (bool(signed), n_int + f + (1 if signed else 0), f)


def sig_bits(n):
    """Number of significant bits of |n| after removing trailing zeros."""
    n = abs(int(n))
    if n == 0:
        return 0
    return n.bit_length() - ((n & -n).bit_length() - 1)


def is_double(v):
    """True iff the exact rational v is a finite IEEE double."""
    v = Fraction(v)
    if v == 0:
        return True
    d = v.denominator
    if d & (d - 1):
        return False
    if sig_bits(v.numerator) > 53:
        return False
    e_hi = v.numerator.bit_length() - d.bit_length()
    return -1000 < e_hi < 1000


def frac_to_decimal_str(v):
    """Exact positional decimal expansion of a dyadic rational."""
    v = Fraction(v)
    sign = '-' if v < 0 else ''
    v = abs(v)
    ip = v.numerator // v.denominator
    fp = v - ip
    if fp == 0:
        return sign + str(ip)
    digits = ''
    while fp:
        fp *= 10
        d = fp.numerator // fp.denominator
        digits += str(d)
        fp -= d
    return sign + str(ip) + '.' + digits
