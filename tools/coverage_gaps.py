#!/venv/bin/python
"""Which executable lines of the library does no check ever run?  (Generator-gap finder, not a registered check.)

usage: tools/coverage_gaps.py [--tier quick] [--props C01,C02] [--keep DIR]
Runs the named checks with VERIF_COV=<dir> (fxverif/runner.py records, per worker, the library lines it executed),
unions the records and prints, per source file, the executable lines never hit, grouped into ranges with the enclosing
function.  A line no check executes marks an input class no generator produces."""
import argparse, ast, glob, json, os, shutil, subprocess, sys, tempfile

HERE = os.path.dirname(os.path.dirname(os.path.abspath(__file__)))
ALL = ['C%02d' % i for i in range(1, 21)]


def executable_lines(path):
    import dis
    code = compile(open(path).read(), path, 'exec')
    out, stack = set(), [code]
    while stack:
        c = stack.pop()
        out.update(l for _, _, l in c.co_lines() if l)
        stack.extend(k for k in c.co_consts if hasattr(k, 'co_lines'))
    return out


def enclosing(path):
    tree = ast.parse(open(path).read())
    spans = []
    for n in ast.walk(tree):
        if isinstance(n, (ast.FunctionDef, ast.ClassDef)):
            spans.append((n.lineno, n.end_lineno, n.name))
    def f(line):
        best = None
        for a, b, name in spans:
            if a <= line <= b and (best is None or a >= best[0]):
                best = (a, b, name)
        return best[2] if best else '<module>'
    return f


def main():
    ap = argparse.ArgumentParser()
    ap.add_argument('--tier', default='quick')
    ap.add_argument('--props', default=','.join(ALL))
    ap.add_argument('--keep', default=None)
    a = ap.parse_args()
    repo = os.path.abspath(os.environ.get('FXP_REPO', '/repo'))
    d = a.keep or tempfile.mkdtemp(prefix='fxcov_')
    for p in a.props.split(','):
        env = dict(os.environ, VERIF_COV=d, VERIF_NO_EVIDENCE='1')
        r = subprocess.run([os.path.join(HERE, 'check'), p, '--tier', a.tier], env=env, capture_output=True, text=True)
        print(p, 'exit', r.returncode, file=sys.stderr)
    hit = set()
    for f in glob.glob(os.path.join(d, '*.json')):
        hit.update(map(tuple, json.load(open(f))))
    total = missed_n = 0
    for name in ('objects.py', 'functions.py', 'utils.py', 'callbacks.py'):
        path = os.path.join(repo, 'fxpmath', name)
        ex = executable_lines(path)
        got = {l for f, l in hit if f == name}
        miss = sorted(ex - got)
        total += len(ex); missed_n += len(miss)
        enc = enclosing(path)
        src = open(path).read().splitlines()
        print('== %s: %d executable lines, %d never executed' % (name, len(ex), len(miss)))
        i = 0
        while i < len(miss):
            j = i
            while j + 1 < len(miss) and miss[j + 1] - miss[j] <= 2:
                j += 1
            print('  %s:%d-%d  in %s   | %s' % (name, miss[i], miss[j], enc(miss[i]), src[miss[i] - 1].strip()[:90]))
            i = j + 1
    print('TOTAL executable %d, never executed %d (%.1f%%)' % (total, missed_n, 100.0 * missed_n / max(total, 1)))
    if not a.keep:
        shutil.rmtree(d, ignore_errors=True)


if __name__ == '__main__':
    main()
