#!/venv/bin/python
"""Minimise the 'steps' of a saved history replay file: drop steps while the same signature still reproduces.
usage: tools/ddmin.py <PROP> <replay.json> [out.json]"""
import json, os, sys
HERE = os.path.dirname(os.path.dirname(os.path.abspath(__file__)))
sys.path.insert(0, HERE)
from fxverif.runner import replay_case   # noqa: E402

prop, path = sys.argv[1], sys.argv[2]
doc = json.load(open(path))
sig, case = doc['signature'], doc['case']


def fails(steps):
    try:
        return sig in replay_case(prop, dict(case, steps=steps))
    except BaseException:
        return False


steps = case['steps']
assert fails(steps), 'does not reproduce'
chunk = max(len(steps) // 2, 1)
while chunk >= 1:
    i = 0
    while i < len(steps):
        cand = steps[:i] + steps[i + chunk:]
        if cand and fails(cand):
            steps = cand
        else:
            i += chunk
    chunk //= 2
doc['case'] = dict(case, steps=steps)
out = sys.argv[3] if len(sys.argv) > 3 else path.replace('.json', '.min.json')
json.dump(doc, open(out, 'w'), indent=1)
for s in steps:
    print(s)
print('->', out, len(steps), 'steps')
