#!/venv/bin/python
"""usage: tools/add_fixed.py <PROP> <commit> <what failed>   - append one 'fixed:' line to known_findings.json"""
import json, sys
p = '/verif/known_findings.json'
k = json.load(open(p))
prop, commit, what = sys.argv[1], sys.argv[2], sys.argv[3]
k['entries'].append({'status': 'fixed', 'property': prop, 'commit': commit, 'what': 'fixed: property=%s %s %s' % (prop, commit, what)})
json.dump(k, open(p, 'w'), indent=1)
print(len(k['entries']), 'entries')
