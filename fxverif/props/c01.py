"""C01 - storing a value quantizes it exactly: scale, round, then saturate or wrap."""
from fractions import Fraction
import itertools
import numpy as np
from hypothesis import strategies as st

from .. import model as M
from .. import common as C
from ..runner import run_given

PROPERTY = 'C01'
RULE = ("Generated: (a) exhaustive - every format with n_word<=6, n_frac in -8..n_word+8, all 10 rounding x overflow modes, "
        "every quarter-LSB input over three times the representable range, stored through float64 arrays by 4 routes and as scalar floats; "
        "(b) Hypothesis - formats up to 52 bits, inputs constructed from a base code (range ends, zero, in range, 3x range, multiples of 2^n_word) "
        "plus a quarter-LSB offset, snapped onto the carrier's exact grid, x 15 element carriers x 9 containers x 4 store routes; "
        "(c) floats of any finite magnitude under saturate, n_frac>=0; (d) complex inputs per component. "
        "Oracle: exact Fraction model OVERFLOW(ROUND(v*2^n_frac)) and read-back == code*2^-n_frac. "
        "A case is non-trivial when the scaled input is not an integer (rounding modes disagree) or is out of range; "
        "distinct = distinct (format, modes, carrier, route, inputs) keys.")
ASSUMPTIONS = [
    'inputs are exactly representable in their carrier (checked in Fractions) and satisfy |v|<2^53, |v*2^n_frac|<2^62',
    'decimal strings are positional (no exponent form); bool/Decimal/range carriers are outside the statement',
    'numpy is trusted only to build input containers and to hand back stored integers',
]
EXHAUSTIVE = False    # the whole quantifier is not enumerated; complete sub-domains are listed in EXHAUSTIVE_SUBDOMAINS
EXHAUSTIVE_SUBDOMAINS = {
    'quick': ['n_word<=6 x n_frac -8..n_word+8 x 10 modes x quarter-LSB grid over 3x range: float64-array carriers x {ctor,call,set_val,setitem}, scalar float ctor'],
    'thorough': ['n_word<=6 grid as quick, plus n_word<=5 grid x every exact scalar carrier x 4 routes'],
}
REQUIRED_CLASSES = {'tie': 200, 'over': 200, 'under': 200, 'nfrac<0': 100, 'nfrac>nword': 100, 'tinyfloat': 1000, 'tinyfloat:product-underflows': 20}

# 'setitem_int' = indexed assignment into an object that was built from python ints (its value dtype is int when n_frac<=0)
ROUTES = ('ctor', 'call', 'set_val', 'setitem', 'setitem_int')
INT_ELEMS = ('np.int8', 'np.int16', 'np.int32', 'np.int64', 'np.uint8', 'np.uint16', 'np.uint32', 'np.uint64')
FLT_ELEMS = ('np.float16', 'np.float32', 'np.float64', 'np.longdouble')
BOOL_ELEMS = ('bool', 'np.bool_')       # True / False are the integers 1 / 0 (python: bool is an int; numpy: comparison results used as 0/1 factors)
ELEMS = ('int', 'float', 'str') + INT_ELEMS + FLT_ELEMS + BOOL_ELEMS
# 'nplist' / 'nptuple' / 'npnlist': python containers whose elements are numpy scalars (e.g. list(np_array))
CONTS = ('scalar', '0d', '1d', '2d', 'list', 'nlist', 'tuple', 'ntuple', 'nplist', 'nptuple', 'npnlist')
CPLX_ELEMS = ('complex', 'np.complex64', 'np.complex128')


def _nptype(name):
    return getattr(np, name.split('.', 1)[1])


def snap(v0, elem, n_frac):
    """Snap the target rational v0 onto the exact grid of an element carrier.
    Returns (exact Fraction, carrier object)."""
    if elem == 'int':
        k = v0.numerator // v0.denominator
        return Fraction(k), int(k)
    if elem in BOOL_ELEMS:
        k = 1 if v0 >= Fraction(1, 2) else 0
        return Fraction(k), (bool(k) if elem == 'bool' else np.bool_(k))
    if elem in INT_ELEMS:
        t = _nptype(elem)
        info = np.iinfo(t)
        k = min(max(v0.numerator // v0.denominator, int(info.min)), int(info.max))
        return Fraction(k), t(k)
    if elem == 'float' or elem == 'np.float64':
        f = float(v0)                       # correctly rounded; exact when v0 has <=53 significant bits
        return Fraction(f), (f if elem == 'float' else np.float64(f))
    if elem in ('np.float16', 'np.float32'):
        t = _nptype(elem)
        with np.errstate(over='ignore'):
            y = t(float(v0))
        if not np.isfinite(y):
            y = t(np.finfo(t).max if v0 > 0 else -np.finfo(t).max)
        return Fraction(float(y)), y
    if elem == 'np.longdouble':
        f = float(v0)
        return Fraction(f), np.longdouble(f)
    if elem == 'str':
        f = Fraction(float(v0))
        # the library parses with float() when '.' is present or n_frac>0, else int()
        return f, M.frac_to_decimal_str(f)
    raise ValueError(elem)


def build(cont, elem, objs, shape2=None):
    """Put carrier elements in a container."""
    if cont == 'scalar':
        return objs[0]
    if elem in ('int', 'float', 'str', 'bool'):
        arr_dtype = {'int': np.int64, 'float': np.float64, 'str': None, 'bool': np.bool_}[elem]
    else:
        arr_dtype = _nptype(elem)
    if cont == '0d':
        return np.array(objs[0], dtype=arr_dtype) if arr_dtype is not None else np.array(objs[0])
    if cont == '1d':
        return np.array(objs, dtype=arr_dtype) if arr_dtype is not None else np.array(objs)
    if cont == '2d':
        a = np.array(objs, dtype=arr_dtype) if arr_dtype is not None else np.array(objs)
        return a.reshape(shape2)
    if cont in ('nplist', 'nptuple', 'npnlist'):
        plain = list(objs)                  # numpy scalars stay numpy scalars
        cont = {'nplist': 'list', 'nptuple': 'tuple', 'npnlist': 'nlist'}[cont]
    else:
        plain = [o.item() if isinstance(o, np.generic) and elem != 'np.longdouble' else o for o in objs] \
            if elem not in ('int', 'float', 'str', 'bool') else list(objs)
    if cont == 'list':
        return list(plain)
    if cont == 'tuple':
        return tuple(plain)
    r, c = shape2
    rows = [plain[i * c:(i + 1) * c] for i in range(r)]
    if cont == 'nlist':
        return [list(x) for x in rows]
    if cont == 'ntuple':
        return tuple(tuple(x) for x in rows)
    raise ValueError(cont)


def store(fmt, mode, obj, route, cont, n, shape2):
    """Perform one store by the named route; returns the Fxp holding the result
    (for setitem the relevant slice is extracted by the caller)."""
    F = C.Fxp()
    s, w, f = fmt
    kw = dict(rounding=mode[0], overflow=mode[1])
    if route == 'ctor':
        return F(obj, s, w, f, **kw), None
    if route == 'call':
        x = F(None, s, w, f, **kw)
        x(obj)
        return x, None
    if route == 'set_val':
        x = F(None, s, w, f, **kw)
        x.set_val(obj)
        return x, None
    if route in ('setitem', 'setitem_int'):
        def zeros(shape):
            z = np.zeros(shape)
            return z if route == 'setitem' else z.astype(int).tolist()
        if cont in ('scalar', '0d'):
            x = F(zeros(3), s, w, f, **kw)
            x[1] = obj
            return x, ('idx', 1)
        if cont in ('2d', 'nlist', 'ntuple', 'npnlist'):
            x = F(zeros((shape2[0] + 1, shape2[1])), s, w, f, **kw)
            x[1:] = obj
            return x, ('rows', 1)
        x = F(zeros(n + 2), s, w, f, **kw)
        x[1:n + 1] = obj
        return x, ('slice', 1, n + 1)
    raise ValueError(route)


def stored_codes(x, sel):
    a = np.asarray(x.val)
    if sel is None:
        pass
    elif sel[0] == 'idx':
        a = a[sel[1]]
    elif sel[0] == 'rows':
        a = a[sel[1]:]
    else:
        a = a[sel[1]:sel[2]]
    fl = a.ravel().tolist() if a.ndim else [a.item()]
    return [C.to_int(e) for e in fl]


def readback(x, sel):
    g = np.asarray(x.get_val())
    if sel is None:
        pass
    elif sel[0] == 'idx':
        g = g[sel[1]]
    elif sel[0] == 'rows':
        g = g[sel[1]:]
    else:
        g = g[sel[1]:sel[2]]
    fl = g.ravel().tolist() if g.ndim else [g.item()]
    return [C.frac_of(e) for e in fl]


def classify_x(x, fmt):
    lo, hi = M.rng(fmt[0], fmt[1])
    tie = (x.denominator == 2)
    kind = 'tie' if tie else ('exact' if x.denominator == 1 else 'inexact')
    rf, rc = M.ROUND(x, 'floor'), M.ROUND(x, 'ceil')
    side = 'over' if rf > hi else 'under' if rc < lo else 'in'
    return kind, side


# ---------------------------------------------------------------- the case checker
def check_store(ctx, case):
    """One store of one container by one route, compared with the model."""
    fmt = tuple(case['fmt'])
    mode = tuple(case['mode'])
    elem, cont, route = case['elem'], case['cont'], case['route']
    x4s = list(case['x4s'])
    s, w, f = fmt
    n = len(x4s)
    shape2 = tuple(case.get('shape2') or (1, n))
    vs, objs = [], []
    for x4 in x4s:
        v, o = snap(C.v_from_x4(x4, f), elem, f)
        vs.append(v)
        objs.append(o)
    if cont in ('scalar', '0d'):
        vs, objs, n = vs[:1], objs[:1], 1
    exp = [M.quant(v, s, w, f, mode[0], mode[1])[0] for v in vs]
    nontriv = False
    for v in vs:
        kind, side = classify_x(M.scaled(v, f), fmt)
        ctx.cls(kind)
        ctx.cls(side)
        nontriv = nontriv or kind != 'exact' or side != 'in'
    ctx.cls('nfrac<0' if f < 0 else 'nfrac>nword' if f > w else 'nfrac-mid')
    ctx.cls('carrier:' + elem)
    ctx.cls('cont:' + cont)
    ctx.cls('route:' + route)
    ctx.ev()
    if nontriv:
        ctx.nontrivial(('store', fmt, mode, elem, cont, route, tuple(vs)))
    ctx.sample(case, nontriv)
    obj = build(cont, elem, objs, shape2)
    sig = 'store/%s/%s/%s' % (elem, cont, route)
    ok, res = ctx.guard(case, store, fmt, mode, obj, route, cont, n, shape2, sig_prefix=sig + '/')
    if not ok:
        return
    x, sel = res
    try:
        got = stored_codes(x, sel)
    except ValueError as e:
        ctx.fail(sig + '/non-integer-code', case, {'error': str(e)})
        return
    if got != exp:
        i = next(i for i in range(min(len(got), len(exp))) if got[i] != exp[i]) if len(got) == len(exp) else -1
        kind, side = classify_x(M.scaled(vs[i], f), fmt) if i >= 0 else ('?', '?')
        ctx.fail('%s/code/%s-%s/%s-%s' % (sig, kind, side, mode[0], mode[1]), case,
                 {'expected_codes': exp, 'got_codes': got, 'values': [str(v) for v in vs]})
        return
    rb = readback(x, sel)
    want = [M.value_of(k, f) for k in exp]
    if rb != want:
        ctx.fail(sig + '/readback', case, {'expected': [str(v) for v in want], 'got': [str(v) for v in rb]})


def check_bigfloat(ctx, case):
    """Float of any finite magnitude under saturate with n_frac>=0."""
    fmt = tuple(case['fmt'])
    s, w, f = fmt
    v = float.fromhex(case['hex'])
    route = case['route']
    rounding = case['rounding']
    exp = M.quant(Fraction(v), s, w, f, rounding, 'saturate')[0]
    ctx.ev()
    ctx.cls('bigfloat')
    lo, hi = M.rng(s, w)
    if exp in (lo, hi):
        ctx.nontrivial(('bigfloat', fmt, rounding, case['hex'], route))
    ctx.sample(case, exp in (lo, hi))
    cont = case.get('cont', 'scalar')
    # in an array the huge value travels next to an ordinary fractional neighbour, which must still be rounded properly
    nb = float(C.v_from_x4(int(case.get('nb_x4', 0)), f))
    exp_nb = M.quant(Fraction(nb), s, w, f, rounding, 'saturate')[0]
    obj = v if cont == 'scalar' else np.array([v, nb])
    ok, res = ctx.guard(case, store, fmt, (rounding, 'saturate'), obj, route, 'scalar' if cont == 'scalar' else '1d', 2, (1, 2),
                        sig_prefix='bigfloat/%s/' % route)
    if not ok:
        return
    x, sel = res
    try:
        codes_ = stored_codes(x, sel)
        got = codes_[0]
    except ValueError as e:
        ctx.fail('bigfloat/%s/non-integer-code' % route, case, {'error': str(e)})
        return
    if got != exp:
        ctx.fail('bigfloat/%s/code' % route, case, {'expected': exp, 'got': got, 'v': v})
        return
    if cont != 'scalar' and codes_[1] != exp_nb:
        ctx.fail('bigfloat/%s/neighbour-code/%s' % (route, 'huge>=2^64' if abs(v) >= 2.0 ** 64 else 'huge<2^64'), case,
                 {'neighbour': nb, 'expected': exp_nb, 'got': codes_[1], 'v': v})


def check_tinyfloat(ctx, case):
    """Floats of tiny magnitude (subnormals, smallest normals): the directed roundings depend only on their sign, also when the
    scaled product v*2^n_frac is not representable as a double (n_frac < 0)."""
    fmt = tuple(case['fmt'])
    s, w, f = fmt
    v = float.fromhex(case['hex'])
    route, rounding, ovf = case['route'], case['rounding'], case['overflow']
    q = M.quant(Fraction(v), s, w, f, rounding, ovf)
    exp = q[0]
    ctx.ev()
    ctx.cls('tinyfloat')
    underflows = f < 0 and v != 0 and (v * 2.0 ** f) == 0.0
    if underflows:
        ctx.cls('tinyfloat:product-underflows')
    ctx.nontrivial(('tinyfloat', fmt, rounding, ovf, case['hex'], route, case.get('cont')))
    ctx.sample(case, True)
    cont = case.get('cont', 'scalar')
    nb = float(C.v_from_x4(int(case.get('nb_x4', 0)), f))
    exp_nb = M.quant(Fraction(nb), s, w, f, rounding, ovf)[0]
    obj = v if cont == 'scalar' else np.array([v, nb])
    sig = 'tinyfloat/%s/%s' % (route, 'product-underflows' if underflows else 'exact-product')
    ok, res = ctx.guard(case, store, fmt, (rounding, ovf), obj, route, 'scalar' if cont == 'scalar' else '1d', 2, (1, 2), sig_prefix=sig + '/')
    if not ok:
        return
    x, sel = res
    try:
        codes_ = stored_codes(x, sel)
    except ValueError as e:
        ctx.fail(sig + '/non-integer-code', case, {'error': str(e)})
        return
    if codes_[0] != exp:
        ctx.fail(sig + '/code', case, {'expected': exp, 'got': codes_[0], 'v': v})
        return
    if cont != 'scalar' and codes_[1] != exp_nb:
        ctx.fail(sig + '/neighbour-code', case, {'neighbour': nb, 'expected': exp_nb, 'got': codes_[1], 'v': v})


def check_complex(ctx, case):
    fmt = tuple(case['fmt'])
    mode = tuple(case['mode'])
    s, w, f = fmt
    elem, route, cont = case['elem'], case['route'], case['cont']
    pairs = case['x4s']          # list of [re_x4, im_x4]
    sub = 'np.float32' if elem == 'np.complex64' else 'float'
    vs, objs = [], []
    for a, b in pairs:
        vr, _ = snap(C.v_from_x4(a, f), sub, f)
        vi, _ = snap(C.v_from_x4(b, f), sub, f)
        vs.append((vr, vi))
        z = complex(float(vr), float(vi))
        objs.append(z if elem == 'complex' else _nptype(elem)(z))
    if cont == 'scalar':
        vs, objs = vs[:1], objs[:1]
        obj = objs[0]
    elif cont == '1d':
        obj = np.array(objs)
    else:
        obj = [complex(o) for o in objs]
    exp_re = [M.quant(v[0], s, w, f, *mode)[0] for v in vs]
    exp_im = [M.quant(v[1], s, w, f, *mode)[0] for v in vs]
    ctx.ev()
    ctx.cls('complex')
    nontriv = any(M.scaled(p, f).denominator != 1 for v in vs for p in v)
    if nontriv:
        ctx.nontrivial(('cplx', fmt, mode, elem, route, cont, tuple(vs)))
    ctx.sample(case, nontriv)
    sig = 'complex/%s/%s/%s' % (elem, cont, route)
    if route.startswith('from-fxp'):
        # the complex values are held exactly by another object (finer format) and converted into the target by a conversion route
        how = route.split(':')[1]

        def do_conv():
            F = C.Fxp()
            src = F(np.array([complex(float(a), float(b)) for a, b in vs]), True, 64, f + 8 if f + 8 > 0 else 8)
            dst = F(None, s, w, f, rounding=mode[0], overflow=mode[1])
            if how == 'call':
                dst(src)
            elif how == 'set_val':
                dst.set_val(src)
            elif how == 'equal':
                dst.equal(src)
            elif how == 'like-kw':
                dst = F(src, like=dst)
            elif how == 'like-method':
                dst = src.like(dst)
            else:
                dst = F(np.zeros(len(vs)), s, w, f, rounding=mode[0], overflow=mode[1])
                dst[:] = src
            return dst, None
        if not all(M.is_double(p) and abs(p) < 2 ** 40 and (p * 2 ** (f + 8 if f + 8 > 0 else 8)).denominator == 1 for v in vs for p in v):
            return
        ok, res = ctx.guard(case, do_conv, sig_prefix=sig + '/')
    elif route == 'real-into-complex':
        # one real value written by index into an object that holds complex values: the others stay complex
        if len(vs) < 2:
            return

        def do_real():
            F = C.Fxp()
            tmpl = F(np.array([complex(float(a), float(b)) for a, b in vs]), s, w, f, rounding=mode[0], overflow=mode[1])
            tmpl[0] = float(vs[0][0])
            return tmpl, None
        exp_im = [0] + exp_im[1:]
        ok, res = ctx.guard(case, do_real, sig_prefix=sig + '/')
    elif route in ('setitem', 'setitem-into-real'):
        # indexed / sliced assignment into an object that already holds complex values, or that held reals so far
        def do_setitem():
            F = C.Fxp()
            n = len(vs)
            tmpl = F(np.zeros(n + 1, dtype=complex if route == 'setitem' else float), s, w, f, rounding=mode[0], overflow=mode[1])
            if cont == 'scalar':
                tmpl[1] = obj
            else:
                tmpl[1:] = obj
            return tmpl[1:], None
        ok, res = ctx.guard(case, do_setitem, sig_prefix=sig + '/')
    else:
        ok, res = ctx.guard(case, store, fmt, mode, obj, route, cont, len(vs), (1, len(vs)), sig_prefix=sig + '/')
    if not ok:
        return
    x, _ = res
    try:
        re, im = C.ccodes(x)
    except ValueError as e:
        ctx.fail(sig + '/non-integer-code', case, {'error': str(e)})
        return
    if re != exp_re or im != exp_im:
        ctx.fail(sig + '/code', case, {'expected': [exp_re, exp_im], 'got': [re, im]})
        return
    g = np.asarray(x.get_val()).ravel().tolist()
    want = [(M.value_of(a, f), M.value_of(b, f)) for a, b in zip(exp_re, exp_im)]
    got = [(Fraction(complex(z).real), Fraction(complex(z).imag)) for z in g]
    if got != want:
        ctx.fail(sig + '/readback', case, {'expected': [[str(a), str(b)] for a, b in want], 'got': [[str(a), str(b)] for a, b in got]})


def check_grid(ctx, case):
    """Whole quarter-LSB grid of one (format, mode) through one route as a float64 array
    (or element by element as scalars of a carrier when case['elem'] is given)."""
    fmt = tuple(case['fmt'])
    mode = tuple(case['mode'])
    route = case['route']
    s, w, f = fmt
    lo, hi = M.rng(s, w)
    span = 1 << w
    x4s = case.get('x4s')
    if x4s is None:
        x4s = list(range(4 * (lo - span), 4 * (hi + span) + 1))
    elem = case.get('elem')
    if elem is None:
        vs = [C.v_from_x4(x4, f) for x4 in x4s]
        exp = [M.quant_code(x4, 4, s, w, mode[0], mode[1])[0] for x4 in x4s]
        arr = np.array([float(v) for v in vs], dtype=np.float64)
        n = len(x4s)
        sig = 'grid/float64-array/%s' % route
        ok, res = ctx.guard(case, store, fmt, mode, arr, route, '1d', n, (1, n), sig_prefix=sig + '/')
        ctx.ev(n)
        if not ok:
            return
        x, sel = res
        try:
            got = stored_codes(x, sel)
        except ValueError as e:
            ctx.fail(sig + '/non-integer-code', case, {'error': str(e)})
            return
        if got != exp:
            bad = [i for i in range(n) if got[i] != exp[i]]
            i = bad[0]
            kind, side = classify_x(Fraction(x4s[i], 4), fmt)
            small = dict(case, x4s=[x4s[i]])
            ctx.fail('%s/code/%s-%s/%s-%s' % (sig, kind, side, mode[0], mode[1]), small,
                     {'x4': x4s[i], 'expected': exp[i], 'got': got[i], 'n_bad': len(bad)})
            return
        rb = readback(x, sel)
        want = [M.value_of(k, f) for k in exp]
        if rb != want:
            i = next(i for i in range(n) if rb[i] != want[i])
            ctx.fail(sig + '/readback', dict(case, x4s=[x4s[i]]), {'expected': str(want[i]), 'got': str(rb[i])})
    else:
        # scalar carrier, one store per point
        for x4 in x4s:
            v, o = snap(C.v_from_x4(x4, f), elem, f)
            exp = M.quant(v, s, w, f, mode[0], mode[1])[0]
            ctx.ev()
            sig = 'grid/%s/scalar/%s' % (elem, route)
            small = dict(case, x4s=[x4])
            ok, res = ctx.guard(small, store, fmt, mode, o, route, 'scalar', 1, (1, 1), sig_prefix=sig + '/')
            if not ok:
                return
            x, sel = res
            try:
                got = stored_codes(x, sel)[0]
            except ValueError as e:
                ctx.fail(sig + '/non-integer-code', small, {'error': str(e)})
                return
            if got != exp:
                kind, side = classify_x(M.scaled(v, f), fmt)
                ctx.fail('%s/code/%s-%s/%s-%s' % (sig, kind, side, mode[0], mode[1]), small,
                         {'v': str(v), 'expected': exp, 'got': got})
                return
            rb = readback(x, sel)[0]
            if rb != M.value_of(exp, f):
                ctx.fail(sig + '/readback', small, {'expected': str(M.value_of(exp, f)), 'got': str(rb)})
                return


CHECKS = {'store': check_store, 'bigfloat': check_bigfloat, 'complex': check_complex, 'grid': check_grid, 'tinyfloat': check_tinyfloat}


def replay(ctx, case):
    CHECKS[case['check']](ctx, case)


# ---------------------------------------------------------------- task bodies
def small_formats(max_w):
    for w in range(1, max_w + 1):
        for s in (True, False):
            for f in range(-8, w + 9):
                yield (s, w, f)


def task_grid(ctx, fmts, routes, elem=None):
    for fmt in fmts:
        s, w, f = fmt
        lo, hi = M.rng(s, w)
        span = 1 << w
        npts = 4 * (hi + span) - 4 * (lo - span) + 1
        for mode in C.MODES:
            for route in routes:
                case = {'check': 'grid', 'fmt': list(fmt), 'mode': list(mode), 'route': route}
                if elem is not None:
                    case['elem'] = elem
                check_grid(ctx, case)
                # non-trivial points of the grid: not a whole number of LSBs, or out of range (each visited once per route)
                nt = npts - (hi - lo + 1)
                ctx.nontrivial_enum(nt)
                ctx.cls('tie', npts // 4)
                ctx.cls('over', 4 * span)
                ctx.cls('under', 4 * span)
                ctx.cls('nfrac<0' if f < 0 else 'nfrac>nword' if f > w else 'nfrac-mid', npts)
        ctx.sample({'check': 'grid', 'fmt': list(fmt), 'route': list(routes), 'elem': elem, 'points_per_mode': npts}, True)


@st.composite
def st_store_case(draw, max_w=52):
    fmt = draw(C.st_fmt(max_w=max_w))
    s, w, f = fmt
    mode = draw(C.st_modes())
    elem = draw(st.sampled_from(ELEMS))
    # decimal strings travel alone or in lists/tuples; ndarrays of str are not a numeric dtype (outside the statement)
    cont = draw(st.sampled_from(CONTS if elem != 'str' else ('scalar', 'list', 'nlist', 'tuple', 'ntuple')))
    if cont in ('nplist', 'nptuple', 'npnlist') and elem in ('int', 'float', 'np.longdouble', 'bool'):
        elem = draw(st.sampled_from(INT_ELEMS + ('np.float16', 'np.float32', 'np.float64')))
    route = draw(st.sampled_from(ROUTES))
    # core domain: |v| < 2^53 and |x| < 2^62
    lim = min(62, 53 + f) if f < 0 else 62
    n = 1 if cont in ('scalar', '0d') else draw(st.integers(1, 6))
    shape2 = None
    if cont in ('2d', 'nlist', 'ntuple', 'npnlist'):
        r, c = draw(st.sampled_from([(1, 1), (1, 3), (2, 2), (3, 1), (2, 3)]))
        n, shape2 = r * c, [r, c]
    x4s = []
    for _ in range(n):
        x4 = draw(C.st_x4(fmt, limit_bits=max(lim, 2)))
        x4s.append(C.clamp_sig_bits(x4, 53))
    return {'check': 'store', 'fmt': list(fmt), 'mode': list(mode), 'elem': elem, 'cont': cont,
            'route': route, 'x4s': x4s, 'shape2': shape2}


def task_hyp_store(ctx, n):
    run_given(ctx, st_store_case(), check_store, n, ctx.task_seed)


@st.composite
def st_bigfloat_case(draw):
    fmt = draw(C.st_fmt(f_lo=0))
    v = draw(st.one_of(
        st.floats(allow_nan=False, allow_infinity=False),
        st.floats(min_value=2.0 ** 52, max_value=1.7e308),
        st.floats(min_value=-1.7e308, max_value=-2.0 ** 52),
        st.sampled_from([1e300, -1e300, 3.4028234663852886e+38, -3.4028234663852886e+38, 2.0 ** 63, -2.0 ** 63,
                         2.0 ** 64, -2.0 ** 64, 2.0 ** 62, 1.7976931348623157e308, -1.7976931348623157e308,
                         9.3e18, -9.3e18, 1.85e19, -1.85e19])))
    return {'check': 'bigfloat', 'fmt': list(fmt), 'hex': float(v).hex(), 'route': draw(st.sampled_from(ROUTES)),
            'rounding': draw(st.sampled_from(C.ROUNDINGS)), 'cont': draw(st.sampled_from(['scalar', '1d'])),
            'nb_x4': C.clamp_sig_bits(draw(C.st_x4(fmt, limit_bits=50)), 53)}


def task_hyp_bigfloat(ctx, n):
    run_given(ctx, st_bigfloat_case(), check_bigfloat, n, ctx.task_seed)


@st.composite
def st_tinyfloat_case(draw):
    fmt = draw(C.st_fmt())
    m = draw(st.one_of(st.integers(1, 16), st.integers(1, 2 ** 52 - 1), st.sampled_from([1, 2, 3, 255, 256, 257])))
    v = draw(st.one_of(st.just(m * 5e-324), st.sampled_from([2.2250738585072014e-308, 1e-300, 2.0 ** -1000, 2.0 ** -1022, 2.0 ** -1023 * 3, 2.0 ** -200]),
                       st.floats(min_value=0.0, max_value=1e-290, exclude_min=True)))
    if draw(st.booleans()):
        v = -v
    return {'check': 'tinyfloat', 'fmt': list(fmt), 'hex': float(v).hex(), 'route': draw(st.sampled_from(ROUTES)),
            'rounding': draw(st.sampled_from(C.ROUNDINGS)), 'overflow': draw(st.sampled_from(['saturate', 'wrap'])),
            'cont': draw(st.sampled_from(['scalar', '1d'])), 'nb_x4': C.clamp_sig_bits(draw(C.st_x4(fmt, limit_bits=50)), 53)}


def task_hyp_tinyfloat(ctx, n):
    run_given(ctx, st_tinyfloat_case(), check_tinyfloat, n, ctx.task_seed)


@st.composite
def st_complex_case(draw):
    fmt = draw(C.st_fmt(max_w=40))
    s, w, f = fmt
    lim = min(62, 53 + f) if f < 0 else 62
    n = draw(st.integers(1, 4))
    x4s = [[C.clamp_sig_bits(draw(C.st_x4(fmt, limit_bits=max(lim, 2))), 53) for _ in range(2)] for _ in range(n)]
    return {'check': 'complex', 'fmt': list(fmt), 'mode': list(draw(C.st_modes())), 'elem': draw(st.sampled_from(CPLX_ELEMS)),
            'route': draw(st.sampled_from(('ctor', 'call', 'set_val', 'setitem', 'setitem-into-real', 'real-into-complex', 'from-fxp:call', 'from-fxp:set_val', 'from-fxp:equal', 'from-fxp:like-kw', 'from-fxp:like-method', 'from-fxp:slice'))), 'cont': draw(st.sampled_from(('scalar', '1d', 'list'))),
            'x4s': x4s}


def task_hyp_complex(ctx, n):
    run_given(ctx, st_complex_case(), check_complex, n, ctx.task_seed)


def tasks(tier, scale=1.0):
    out = []
    fmts = list(small_formats(6))
    # exhaustive grid: float64 arrays by 4 routes + scalar float by ctor; split by format for sharding
    chunks = [fmts[i::24] for i in range(24)]
    for i, ch in enumerate(chunks):
        out.append(('grid-array-%d' % i, 'task_grid', {'fmts': ch, 'routes': ROUTES}))
    sc_fmts = list(small_formats(6 if tier == 'thorough' else 4))
    chunks = [sc_fmts[i::16] for i in range(16)]
    for i, ch in enumerate(chunks):
        out.append(('grid-scalar-float-%d' % i, 'task_grid', {'fmts': ch, 'routes': ('ctor',) if tier == 'quick' else ROUTES, 'elem': 'float'}))
    if tier == 'thorough':
        f5 = list(small_formats(5))
        for elem in ('int', 'str', 'np.float32', 'np.float16', 'np.int8', 'np.int64', 'np.uint8', 'np.longdouble'):
            for i in range(4):
                out.append(('grid-scalar-%s-%d' % (elem, i), 'task_grid', {'fmts': f5[i::4], 'routes': ROUTES, 'elem': elem}))
    nh = int((2500 if tier == 'quick' else 25000) * scale)
    for i in range(16):
        out.append(('hyp-store-%d' % i, 'task_hyp_store', {'n': nh}))
    for i in range(4):
        out.append(('hyp-bigfloat-%d' % i, 'task_hyp_bigfloat', {'n': nh // 2}))
    for i in range(4):
        out.append(('hyp-complex-%d' % i, 'task_hyp_complex', {'n': nh // 2}))
    for i in range(2):
        out.append(('hyp-tinyfloat-%d' % i, 'task_hyp_tinyfloat', {'n': nh // 2}))
    return out
