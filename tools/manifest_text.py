"""Per-property manifest wording (level text, trusted base, deciding technique)."""
NOT_APPLICABLE = {}
_BASE = ('Trusted base: the int/Fraction reference model in fxverif/model.py, CPython, Hypothesis, and numpy only as a container for inputs and stored integers. '
         'Sampling outside the exhaustively enumerated sub-domains: absence of a counter-example there is evidence, not proof.')
TEXT = {
    'C01': dict(
        level='Exploration with an exact independent oracle: every quarter-LSB input over 3x the range of every format with n_word<=6 (all n_frac, all 10 modes) is enumerated completely through array and scalar carriers and four store routes; formats up to 52 bits, 15 element carriers x 9 containers x 4 routes, huge floats and complex inputs are searched with boundary-constructed Hypothesis inputs. Right level because the property is a universally quantified equation whose failure regions are boundary sets that enumeration + construction reach.',
        note=_BASE + ' Inputs are restricted to values exactly representable in their carrier and to the stated core domain.',
        technique='exhaustive small-format enumeration + Hypothesis boundary-constructed inputs vs exact Fraction reference quantizer (differential oracle)'),
    'C03': dict(
        level='Exploration: the wrap image of every quarter-LSB input over 3x the range of every format with n_word<=6 is enumerated completely and checked against two independent conditions (in range, congruent to the rounded input modulo 2^n_word); formats up to 52 bits, 64..256-bit words with python integers of up to 4x the word length, the shift-invariance metamorphic relation and wrap registers fed by add/sub/mul (out, out_like) are searched with Hypothesis.',
        note=_BASE + ' Only ROUND of the reference model is used (OVERFLOW is not); shift invariance is asserted only where rounding commutes with the shift (floor/ceil/around, or trunc/fix without a sign change).',
        technique='exhaustive small-format enumeration + Hypothesis; congruence-and-range oracle, metamorphic shift invariance, differential vs exact integer arithmetic for registers'),
    'C05': dict(
        level='Exploration by relational oracles that never call the reference quantizer: direction, half-LSB bound, ties-to-even, |error|<LSB, idempotence of every representable value under all 10 modes and three re-store routes, monotonicity of sorted inputs; complete for the quarter-LSB grid of every format with n_word<=6 (8 thorough), sampled to 52 bits.',
        note=_BASE + ' Independent of model.quant, so it also guards the C01 oracle.',
        technique='exhaustive enumeration + Hypothesis with relational (metamorphic / algebraic-law) oracles in exact Fractions'),
    'C07': dict(
        level='Exploration: every pair of codes of every pair of formats with n_word<=4 (n_frac -1..n_word+1) is enumerated for +,-,* (broadcast column x row) through operators, fxpmath functions and numpy ufuncs, raw and repr; all format pairs up to 52 bits with result word <=53 are sampled at their four extreme corners (which bound every other pair by monotonicity) and random expression trees of depth <=4 are evaluated against Fractions.',
        note=_BASE + ' Growth rules in the model are written from README/docs and are themselves checked (an exact result outside the documented format is reported).',
        technique='exhaustive pair enumeration + Hypothesis corner/expression-tree generation vs exact integer/Fraction arithmetic (differential oracle)'),
    'C08': dict(
        level='Exploration: exact result quantized by the reference model into the imposed format under the governing configuration, with independent random modes on x, y and the target so that a wrong governing config or a double rounding is visible; exhaustive code pairs for n_word<=4 format pairs x 4 policies x 3 ops x 10 modes, Hypothesis for 2<=n_word<=12 over sizing / constant (both sides, same/best) / out / out_like (kwarg and config routes) / raw vs repr / unary ops.',
        note=_BASE + ' For unrepresentable unary results only an in-range code with a raised flag is required (statement latitude).',
        technique='exhaustive + Hypothesis generated configurations vs reference quantizer of the exact Fraction result (differential oracle)'),
    'C09': dict(
        level='Exploration: every code pair (divisor != 0) of every pair of formats with n_word<=4 (5 thorough) for /, //, % under three roundings, raw and repr, against exact Fractions (exact-when-representable, <1 LSB otherwise, exact floor and modulo, identity (x//y)*y+x%y==x through the library); Hypothesis random pairs with result word <=53 biased to extreme and negative inexact quotients.',
        note=_BASE + ' Operand pairs whose aligned intermediate needs >=63 bits are a listed known finding (int64 raw kernels), classified from the formats alone.',
        technique='exhaustive pair enumeration + Hypothesis vs exact Fraction quotient/floor/modulo (differential + algebraic identity)'),
    'C02': dict(
        level='Exploration over programs: a Hypothesis rule-based state machine generates random programs of ~40 public operations (13 operation families) over a pool of objects and the well-formedness invariant (codes in range and integral, n_int, upper/lower/precision, dtype spelling, status keys) is evaluated on the result of every step and on every live object; a second generated check drives saturation with floats of any finite magnitude and python integers up to 2^1000.',
        note=_BASE + ' The invariant is a predicate over public attributes only; steps whose documented result word is < 1 are skipped and counted.',
        technique='stateful (rule-based) property-based testing with an invariant after every step + Hypothesis saturation inputs vs exact bounds'),
    'C04': dict(
        level='Exploration over histories: a rule-based state machine interleaves writes (5 routes, scalar/array/indexed/sliced, values built at the range ends), Fxp-sourced writes, mode changes, reset, resize, arithmetic, dispatched functions and copies; a 3-boolean sticky model per object is compared with status after every step and a recording Callback is compared per write; every boundary input of every n_word<=6 format is enumerated for the iff-conditions, stickiness and reset.',
        note=_BASE + ' Callback counts are asserted for explicit writes only; propagation is asserted one-directionally and only for the routes the statement names.',
        technique='stateful model-based testing (sticky-flag reference model, recording callback) + exhaustive boundary enumeration'),
    'C06': dict(
        level='Exploration: dyadic scalars and 1-d/2-d arrays built around +-2^j, 2^j-1, -2^j+1 with each subset of {n_word,n_frac,n_int} given near the exact requirement; inferred format compared with an independent upward minimal-format search, values with the reference quantizer; capped (>64 bit) doubles checked against the stated contract.',
        note=_BASE + ' Overflowing values in 53..64-bit words are outside C01/C02 and only the inferred format is asserted there.',
        technique='Hypothesis boundary-constructed inputs vs independent minimal-format search (reference model)'),
    'C10': dict(
        level='Exploration: nine conversion routes x independent source/destination modes; every code of every source format with n_word<=4 (6 thorough) into 14-24 destination formats, Hypothesis to 52 bits with 0/1/2-d shapes, sources built from raw codes, floats and ints, chains of up to 6 conversions; all routes must equal the reference quantization of the exact source value, preserve shape and leave the source unchanged.',
        note=_BASE,
        technique='exhaustive + Hypothesis differential testing of nine routes against the reference quantizer (all-routes-agree oracle)'),
    'C11': dict(
        level='Exploration of a bijection: every code of every format with n_word<=8 (all n_frac) is rendered (bin, bin with point, prefixes, hex, base 2/8/10/16) and compared with images built by Python format(), then both the library rendering and the model rendering are parsed back by five routes in value and raw mode; boundary/random codes to 256 bits; scalars, 1-d and 2-d arrays.',
        note=_BASE + ' Binary text is fed back with its 0b prefix to constructor/call/set_val (a bare digit string is a decimal literal) and bare to from_bin.',
        technique='exhaustive enumeration + Hypothesis; independent string model and round-trip oracle'),
    'C12': dict(
        level='Complete enumeration of (signed, n_word 1..256, n_frac -8..n_word+8, complex for n_word<=52) under both notation defaults: canonical spelling, get_dtype in both notations, reconstruction by constructor and resize from fxp, Q/UQ and S/U spellings; Hypothesis random spellings (case flips, explicit +, omitted fraction).',
        note=_BASE,
        technique='exhaustive enumeration of the format space with a render/parse round-trip oracle + grammar-based Hypothesis spellings'),
    'C13': dict(
        level='Exploration: all code pairs for n_word<=6 x 4 signedness combinations (x as array against each scalar operand, scalar-scalar for small words) and every integer mask in [-2^w, 2^w) on both sides; boundary/random codes for 16..128-bit words incl. arrays; oracle is Python integer bit arithmetic on the two\'s-complement images; algebraic laws (double invert, De Morgan, ~x == -x-LSB) evaluated through the library; mismatched word lengths must raise.',
        note=_BASE,
        technique='exhaustive pair enumeration + Hypothesis vs Python-int two\'s-complement oracle and algebraic laws'),
    'C14': dict(
        level='Exploration: every code of every format with n_word<=6 x every count 0..n_word+3 x 3 shifting x 2 overflow modes x 2 directions as scalars and as whole-format arrays (array-wide sizing); Hypothesis to 32 bits with 2-d arrays; exact Fraction value in expand mode, Python floor shift / representable-or-clamped-or-wrapped in trunc/keep, operand untouched.',
        note=_BASE + ' For an unrepresentable x<<n in trunc/keep either the clamp or the wrap image is accepted (statement latitude).',
        technique='exhaustive enumeration + Hypothesis vs exact Fraction / Python shift oracle'),
    'C15': dict(
        level='Exploration: 13 functions x numpy-function and method routes x axis None/each axis over shapes to 3x3 / length 8, elements all-lowest / all-highest / alternating / random, dot and matmul with independent second format; the oracle is the same numpy function over an object array of Fractions.',
        note=_BASE + ' numpy only iterates the Fraction arrays. cumprod on formats with n_frac<0 or n_frac>n_word is a listed known finding.',
        technique='Hypothesis-generated arrays; differential oracle = numpy over exact Fraction object arrays'),
    'C16': dict(
        level='Exploration: conversions for every code of every format with n_word<=8 (n_frac -1..n_word+1) created by three routes; comparisons for all code pairs of all format pairs with n_word<=3 and Hypothesis pairs to 24 bits with codes adjacent across grids, numbers on either side, arrays.',
        note=_BASE + ' A number on the left must be a plain python number (ndarray / numpy scalar on the left goes through numpy ufunc dispatch, outside the statement).',
        technique='exhaustive + Hypothesis adjacent-value generation vs exact Fraction comparison / floor oracle'),
    'C17': dict(
        level='Exploration: dyadic scales (incl. negative) and biases with the unscaled target on the quarter-LSB grid; every float intermediate is proved exact in Fractions so equality is exact; code, read-back, limits, precision, flags and size inference compared with the affine model around the reference quantizer; four store routes, scalar and array.',
        note=_BASE,
        technique='Hypothesis boundary-constructed inputs with exactness-by-construction vs affine reference model'),
    'C18': dict(
        level='The stated grid of 10 word lengths x 5 fraction lengths x signedness x overflow is enumerated completely with boundary / modulus / 2^63 / 2^64 / alternating-bit codes through four integer routes, raw bin/hex strings, lists and object arrays (homogeneous and mixed magnitude) and bitwise operators; Hypothesis adds random widths 64..256 and codes of up to 4x the word length; extended_prec indicator for n_word 1..70.',
        note=_BASE + ' Codes must be held as python int (a float is a failure even if numerically equal).',
        technique='grid enumeration + Hypothesis vs python-int clamp/wrap oracle and string model'),
    'C19': dict(
        level='Exploration of the 64-bit transition zone: operand words 2..70 weighted at 26..33, 52, 53, 60..65, 70, any n_frac, every signedness mix, codes at/near the extremes and around 2^53/2^62/2^63; cases are classified from the inputs by operand storage kinds and aligned-intermediate width so that every class is populated; storing python integers up to 2^1000 by four routes with exact flags.',
        note=_BASE,
        technique='Hypothesis class-directed generation vs exact python-int arithmetic / reference quantizer'),
    'C20': dict(
        level='Exploration over histories: a rule-based state machine derives objects by 30 routes and then mutates one (value, indexed write, config attribute, flag-raising write, reset, callback append, direct status write) and compares full snapshots of all other objects; identity / shared-memory checks after each derivation; write-through of chained indexing incl. 64+ bit words; containers of numbers and bin/hex strings deep-compared after four construction routes; every validated Config option x invalid values x 4 setting routes enumerated.',
        note=_BASE + ' copy(), flatten(), T, fxp_like are documented shallow copies and excluded.',
        technique='stateful property-based testing with snapshot-comparison invariant + Hypothesis containers + exhaustive config-validation enumeration'),
}

# ---- additions made after the independent bug-hunt rounds (DESIGN.md sections 5 and 9): input classes that were added to the generators
_ADDED = {
    'C01': ' Later additions: containers of numpy scalars and narrow numpy dtypes, complex values written by index into objects holding reals (and the reverse), complex values converted from another fixed-point object by six routes. Tiny floats (subnormals, smallest normals) whose scaled product is not representable.',
    'C02': ' Later additions: limits must be complex exactly while complex values are held; objects that are their own op_out / op_out_like target and their like= / template= / indexing derivations. Scale / bias given with like=; floats at the limits of 54..63-bit results of core operands; NumPy functions fxpmath does not implement itself and mean / std / var return well-formed objects.',
    'C03': ' Later additions: wide words with negative n_frac; + - * delivered through out_like / out / numpy out= / call / config.op_out into a wrap register of a third format (any rounding, usually fewer fraction bits); sum / cumsum / max / min / dot accumulated into such registers, and reductions of a wrap operand with same sizing. Values held by another fixed-point object (rounding carry at the range ends).',
    'C04': ' Later additions: unary -,+,abs, like(), fxp_sum, callbacks given next to like= / template=, one complex boundary write per notification. Masked / fancy / empty-selection indexed writes; modes set through the mirror attributes.',
    'C06': ' Later additions: narrow numpy carriers, arrays in the capped case (asserted at the 64-bit word too), long-fraction doubles of both signs, a given n_frac up to the word limit or negative.',
    'C07': ' Later additions: operands whose status record already carries overflow / underflow from earlier writes (result flags must be clean).',
    'C08': ' Later additions: numpy scalar / 0-d constants on either side, config.array_op_out / array_op_out_like targets through the numpy ufunc form (also with the constant on the left).',
    'C09': ' Later additions: operand words up to 62 bits with a result word <=53. Python / numpy constants on either side and in-place forms of / // %.',
    'C10': ' Later additions: resize given by n_int and n_frac.',
    'C11': ' Later additions: numpy arrays of rendered strings (54..63-bit class), prefixes selected through the configuration, dotted binary strings fed back as raw values. The short prefixes \'b\' and \'0h\' parsed back (raw and value, dotted).',
    'C12': ' Later additions: a dtype spelling given together with a zero value.',
    'C13': ' Later additions: operands taken out of arrays by indexing or produced by a keep-mode shift (64+ bit words), numpy-typed masks on either side.',
    'C14': ' Later additions: numpy-typed shift counts.',
    'C15': ' Later additions: transpose axes / .T, keepdims, tuple axes, exchanged diagonal axes, clip with one limit / list / ndarray / fixed-point limits / numpy min= max= names / repr method, matmul through np.matmul and @ under every array_op_method.',
    'C16': ' Later additions: numpy scalars, 0-d arrays and ndarrays on either side, numpy comparison ufuncs.',
    'C17': ' Later additions: numpy-scalar scale / bias, scale / bias next to like=, uint64 and fixed-point carriers, like() route, elements of scaled arrays, sums delivered into scaled out / out_like targets or taken with a scaled operand. resize of a scaled object.',
    'C18': ' Later additions: element-wise assignment of python integers into wide arrays (elements must stay python ints). Lists / tuples mixing numpy integer scalars with python integers.',
    'C20': ' Later additions: arrays returned by x(), get_val(), astype() are overwritten and the object must not change. Write-through for any basic first index (columns, stepped / reversed / offset slices). flatten / ravel / .T / fxp_like as derivation routes.',
}
for _k, _v in _ADDED.items():
    TEXT[_k]['level'] += _v
TEXT['C09']['note'] = TEXT['C09']['note'].replace(' Operand pairs whose aligned intermediate needs >=63 bits are a listed known finding (int64 raw kernels), classified from the formats alone.', ' Operand pairs whose aligned intermediate needs >=63 bits form their own input class (repaired defect D10).')
