#!/venv/bin/python
"""Sensitivity harness: apply one small semantic patch to a scratch copy of fxpmath,
run the affected quick checks against it and require exit 1 + a VIOLATION line.

usage: tools/mutation_check.py [--only NAME_SUBSTR] [--prop CNN] [--list]
The scratch copy lives under /tmp and is removed after each mutant."""
import argparse, json, os, shutil, subprocess, sys, tempfile, time

HERE = os.path.dirname(os.path.dirname(os.path.abspath(__file__)))
sys.path.insert(0, HERE)
from tools.mutants import MUTANTS   # noqa: E402


def run(m, props, tier='quick'):
    d = tempfile.mkdtemp(prefix='fxmut_')
    try:
        shutil.copytree('/repo/fxpmath', os.path.join(d, 'fxpmath'))
        p = os.path.join(d, 'fxpmath', m['file'])
        s = open(p).read()
        if s.count(m['old']) != 1:
            return {'name': m['name'], 'error': 'pattern occurs %d times' % s.count(m['old'])}
        open(p, 'w').write(s.replace(m['old'], m['new']))
        res = {}
        for prop in props:
            env = dict(os.environ, FXP_REPO=d, VERIF_NO_EVIDENCE='1', VERIF_NO_SHRINK='1')
            t0 = time.time()
            r = subprocess.run([os.path.join(HERE, 'check'), prop, '--tier', tier], env=env, capture_output=True, text=True)
            vio = [l for l in r.stdout.splitlines() if l.startswith('VIOLATION')]
            res[prop] = {'exit': r.returncode, 'violations': len(vio), 'wall': round(time.time() - t0, 1),
                         'first': (r.stdout.split('signature:')[1].splitlines()[0].strip() if 'signature:' in r.stdout else '')}
        return {'name': m['name'], 'results': res}
    finally:
        shutil.rmtree(d, ignore_errors=True)


def main():
    ap = argparse.ArgumentParser()
    ap.add_argument('--only')
    ap.add_argument('--prop')
    ap.add_argument('--list', action='store_true')
    ap.add_argument('--out', default=None)
    a = ap.parse_args()
    ms = [m for m in MUTANTS if (not a.only or a.only in m['name']) and (not a.prop or a.prop in m['props'])]
    if a.list:
        for m in ms:
            print(m['name'], m['props'])
        return 0
    alive = 0
    out = []
    for m in ms:
        props = [a.prop] if a.prop else m['props']
        r = run(m, props)
        out.append(r)
        if 'error' in r:
            print('ERROR   %-40s %s' % (m['name'], r['error']))
            alive += 1
            continue
        for prop, rr in r['results'].items():
            killed = rr['exit'] == 1 and rr['violations'] > 0
            alive += 0 if killed else 1
            print('%s %-44s %s exit=%d vio=%d %.0fs %s' % ('KILLED ' if killed else 'ALIVE  ', m['name'], prop, rr['exit'], rr['violations'], rr['wall'], rr['first'][:90]))
        sys.stdout.flush()
    if a.out:
        json.dump(out, open(a.out, 'w'), indent=1)
    return 1 if alive else 0


if __name__ == '__main__':
    sys.exit(main())
