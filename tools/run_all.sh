#!/bin/sh
# Run every registered quick (or thorough) check once; print one status line per property.
TIER="${1:-quick}"
cd "$(dirname "$0")/.." || exit 2
rc=0
for p in C01 C02 C03 C04 C05 C06 C07 C08 C09 C10 C11 C12 C13 C14 C15 C16 C17 C18 C19 C20; do
    out="$(./check $p --tier $TIER 2>&1)"; e=$?
    echo "$out" | grep -E "^(VIOLATION|KNOWN-FINDING|HARNESS|INCONCL)" | cut -c1-160
    echo "exit=$e $(echo "$out" | grep -E "^$p tier")"
    [ $e -ne 0 ] && rc=1
done
exit $rc
