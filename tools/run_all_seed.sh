#!/bin/sh
# usage: tools/run_all_seed.sh <tier> <seed>   (no evidence rewritten)
cd "$(dirname "$0")/.." || exit 2
VERIF_SEED="$2" VERIF_NO_EVIDENCE=1 sh tools/run_all.sh "$1"
