#!/bin/sh
# Run the quick tier of every check under several VERIF_SEED values (quietness on the unchanged tree).
cd "$(dirname "$0")/.." || exit 2
for s in "$@"; do
    echo "===== VERIF_SEED=$s"
    VERIF_SEED=$s VERIF_NO_EVIDENCE=1 sh tools/run_all.sh quick 2>&1 | grep -E "^exit=[12]|^VIOLATION|^INCONCL|^HARNESS|signature" | cut -c1-200
done
echo sweep-done
