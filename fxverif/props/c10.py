"""C10 - format conversion gives the same correctly quantized value by every route."""
from fractions import Fraction
import itertools
import numpy as np
from hypothesis import strategies as st

from .. import model as M
from .. import common as C
from ..runner import run_given

PROPERTY = 'C10'
RULE = ("A source of format Fs holding given codes is converted to format Fd (independent random rounding/overflow on source and destination) by nine routes: resize(sizes), resize(dtype=), "
        "Fxp(src, like=dst), src.like(dst), Fxp(src, sizes, modes), dst(src), dst.set_val(src), dst.equal(src), dst[idx]=src[idx]; expected = exact source value quantized by the reference model into Fd "
        "under the destination's modes, identical for every route, shape preserved, source codes/format unchanged, exact when representable, overflow/underflow flags of the destination exact. "
        "Sources are built from raw codes, from float values and from python-int values (different value dtypes). Generated: exhaustive codes for n_word<=4 sources x sampled destinations (<=6 thorough), "
        "Hypothesis up to 52 bits with shapes (), (n,), (m,n), chains of up to 6 conversions. Non-trivial = value inexact or out of range in the destination, or chain length >=3; distinct = distinct case keys.")
ASSUMPTIONS = ['core-domain formats (n_word<=52); no scale/bias', 'flags compared on overflow/underflow only (inaccuracy propagation on conversion routes is C04 territory)']
EXHAUSTIVE = False    # the whole quantifier is not enumerated; complete sub-domains are listed in EXHAUSTIVE_SUBDOMAINS
EXHAUSTIVE_SUBDOMAINS = {'quick': ['every code of every source format n_word<=4 (n_frac -2..n_word+2) x 14 destination formats x 9 routes x 10 destination modes'],
                         'thorough': ['every code of every source format n_word<=6 x 24 destination formats x 9 routes x 10 modes']}
REQUIRED_CLASSES = {'inexact': 2000, 'overflow': 2000, 'chain>=3': 200, 'src:int-valued': 300, 'shape:2d': 200, 'upshift>=63bits': 100}

ROUTES = ('resize', 'resize_dtype', 'like_kw', 'like_method', 'ctor_sizes', 'call', 'set_val', 'equal', 'setitem')


def make_src(F, fs, ms, codes, shape, how):
    """Source object holding exactly `codes` (flat list) in format fs."""
    arr = codes[0] if shape == () else np.array(codes, dtype=object if fs[1] > 62 else np.int64).reshape(shape)
    kw = dict(rounding=ms[0], overflow=ms[1])
    if how == 'raw':
        return F(arr, fs[0], fs[1], fs[2], raw=True, **kw)
    vals = [M.value_of(k, fs[2]) for k in codes]
    if how == 'int' and all(v.denominator == 1 for v in vals):
        obj = [int(v) for v in vals]
    else:
        obj = [float(v) for v in vals]
    obj = obj[0] if shape == () else np.array(obj).reshape(shape)
    return F(obj, fs[0], fs[1], fs[2], **kw)


def convert(F, route, src, fd, md):
    s, w, f = fd
    kw = dict(rounding=md[0], overflow=md[1])
    if route == 'resize':
        y = src.deepcopy()
        y.config.rounding, y.config.overflow = md
        y.reset()
        if (w + f) % 2 == 0 and w - f - int(s) >= 0:
            y.resize(s, n_int=w - f - int(s), n_frac=f)       # the same format given by its integer and fraction lengths
        else:
            y.resize(s, w, f)
        return y
    if route == 'resize_dtype':
        y = src.deepcopy()
        y.config.rounding, y.config.overflow = md
        y.reset()
        y.resize(dtype=M.dtype_str(s, w, f))
        return y
    dst = F(None, s, w, f, **kw)
    if route == 'like_kw':
        return F(src, like=dst)
    if route == 'like_method':
        return src.like(dst)
    if route == 'ctor_sizes':
        return F(src, s, w, f, **kw)
    if route == 'call':
        dst(src)
        return dst
    if route == 'set_val':
        dst.set_val(src)
        return dst
    if route == 'equal':
        dst.equal(src)
        return dst
    if route == 'setitem':
        shape = C.shape_of(src)
        if shape == ():
            d = F(np.zeros(2), s, w, f, **kw)
            d[1] = src
            y = d[1]
            y.status = d.status
            return y
        d = F(np.zeros(shape), s, w, f, **kw)
        if len(shape) == 1:
            d[:] = src[:]
        else:
            d[0:] = src[0:]
        return d
    raise ValueError(route)


def upshift_bits(fs, fd):
    return fs[1] + max(fd[2] - fs[2], 0)


def check_conv(ctx, case):
    fs, fd = tuple(case['fs']), tuple(case['fd'])
    ms, md = tuple(case['ms']), tuple(case['md'])
    codes = [int(k) for k in case['codes']]
    shape = tuple(case['shape'])
    routes = case['routes']
    how = case.get('how', 'raw')
    F = C.Fxp()
    ctx.ev(len(codes) * len(routes))
    exp = [M.quant(M.value_of(k, fs[2]), fd[0], fd[1], fd[2], md[0], md[1]) for k in codes]
    ecodes = [e[0] for e in exp]
    eo, eu = any(e[1] for e in exp), any(e[2] for e in exp)
    wide = upshift_bits(fs, fd) >= 63
    for route in routes:
        sig = ('conv-upshift>=63bits/%s/%s' if wide else 'conv/%s/%s') % (route, how)

        def do():
            src = make_src(F, fs, ms, codes, shape, how)
            before = (C.flat(C.codes(src)), C.fmt_of(src), C.shape_of(src))
            y = convert(F, route, src, fd, md)
            after = (C.flat(C.codes(src)), C.fmt_of(src), C.shape_of(src))
            return y, before, after
        ok, res = ctx.guard(dict(case, routes=[route]), do, sig_prefix=sig + '/')
        if not ok:
            continue
        y, before, after = res
        one = dict(case, routes=[route])
        if before != after or before[0] != codes:
            ctx.fail(sig + '/source-changed', one, {'before': before, 'after': after})
            continue
        if C.fmt_of(y) != (bool(fd[0]), fd[1], fd[2]):
            ctx.fail(sig + '/format', one, {'expected': fd, 'got': C.fmt_of(y)})
            continue
        if C.shape_of(y) != shape:
            ctx.fail(sig + '/shape', one, {'expected': list(shape), 'got': list(C.shape_of(y))})
            continue
        try:
            got = C.flat(C.codes(y))
        except ValueError as e:
            ctx.fail(sig + '/non-integer-code', one, {'error': str(e)})
            continue
        if got != ecodes:
            i = next(i for i in range(len(got)) if got[i] != ecodes[i])
            xs = M.scaled(M.value_of(codes[i], fs[2]), fd[2])
            kind = 'tie' if xs.denominator == 2 else 'exact' if xs.denominator == 1 else 'inexact'
            side = 'over' if exp[i][1] else 'under' if exp[i][2] else 'in'
            ctx.fail('%s/value/%s-%s/%s' % (sig, kind, side, md[0]), one,
                     {'src_code': codes[i], 'expected_code': ecodes[i], 'got_code': got[i]})
            continue
        o, u, _ = C.flags(y)
        if (o, u) != (eo, eu):
            ctx.fail('%s/flags' % sig, one, {'expected': [eo, eu], 'got': [o, u]})
            continue
        # what the user reads back from the destination is the exact value of the stored code
        ok2, rb = ctx.guard(one, C.values, y, sig_prefix=sig + '/readback/')
        if ok2 and rb != [M.value_of(k, fd[2]) for k in ecodes]:
            ctx.fail('%s/readback' % sig, one, {'codes': ecodes, 'read': [str(v) for v in rb], 'vdtype': str(y.vdtype)})


def check_chain(ctx, case):
    """Up to 6 successive conversions; the value after each step is the quantization of the previous stored value."""
    fmts = [tuple(f) for f in case['fmts']]
    modes = [tuple(m) for m in case['modes']]
    routes = case['routes']
    codes = [int(k) for k in case['codes']]
    shape = tuple(case['shape'])
    F = C.Fxp()
    ctx.ev(len(routes))
    cur_codes, cur_fmt = codes, fmts[0]

    def do_first():
        return make_src(F, fmts[0], modes[0], codes, shape, 'raw')
    ok, x = ctx.guard(case, do_first, sig_prefix='chain/')
    if not ok:
        return
    for i, route in enumerate(routes):
        fd, md = fmts[i + 1], modes[i + 1]
        wide = upshift_bits(cur_fmt, fd) >= 63
        sig = ('chain-upshift>=63bits/%s' if wide else 'chain/%s') % route
        exp = [M.quant(M.value_of(k, cur_fmt[2]), fd[0], fd[1], fd[2], md[0], md[1])[0] for k in cur_codes]
        ok, y = ctx.guard(case, convert, F, route, x, fd, md, sig_prefix=sig + '/')
        if not ok:
            return
        try:
            got = C.flat(C.codes(y))
        except ValueError as e:
            ctx.fail(sig + '/non-integer-code', case, {'error': str(e), 'step': i})
            return
        if got != exp or C.fmt_of(y) != (bool(fd[0]), fd[1], fd[2]) or C.shape_of(y) != shape:
            ctx.fail(sig + '/step', case, {'step': i, 'from': cur_fmt, 'to': fd, 'expected': exp, 'got': got, 'shape': list(C.shape_of(y))})
            return
        x, cur_codes, cur_fmt = y, exp, fd


CHECKS = {'conv': check_conv, 'chain': check_chain}


def replay(ctx, case):
    CHECKS[case['check']](ctx, case)


def src_formats(max_w):
    return [(s, w, f) for w in range(1, max_w + 1) for s in (True, False) for f in range(-2, w + 3)]


def dst_formats(fs, n):
    s, w, f = fs
    cands = [(s, w, f - 1), (s, w, f + 1), (not s, w, f), (s, max(w - 1, 1), f), (s, w + 1, f + 1), (s, w + 2, f - 2), (not s, w + 1, f),
             (s, max(w - 2, 1), f - 1), (True, 8, 3), (False, 3, -1), (True, 2, 4), (s, w, f - 2), (not s, max(w - 1, 1), f + 1), (s, w + 3, f + 3),
             (True, 1, 0), (False, 1, 1), (s, w + 1, f - 1), (not s, w + 2, f + 2), (True, 12, 6), (False, 5, 5), (s, w, f), (True, 6, -2), (False, 7, 9), (s, max(w - 1, 1), f - 1)]
    return cands[:n]


def task_exh(ctx, sources, ndst):
    for fs in sources:
        lo, hi = M.rng(fs[0], fs[1])
        codes = list(range(lo, hi + 1))
        for di, fd in enumerate(dst_formats(fs, ndst)):
            for mi, md in enumerate(C.MODES):
                ms = C.MODES[(mi + 4) % 10]
                how = ('raw', 'float', 'int')[(di + mi) % 3]
                case = {'check': 'conv', 'fs': list(fs), 'fd': list(fd), 'ms': list(ms), 'md': list(md), 'codes': codes,
                        'shape': [len(codes)], 'routes': list(ROUTES), 'how': how}
                check_conv(ctx, case)
                nt = 0
                for k in codes:
                    xs = M.scaled(M.value_of(k, fs[2]), fd[2])
                    l2, h2 = M.rng(fd[0], fd[1])
                    if xs.denominator != 1:
                        nt += 1
                        ctx.cls('inexact', len(ROUTES))
                    elif xs > h2 or xs < l2:
                        nt += 1
                        ctx.cls('overflow', len(ROUTES))
                ctx.nontrivial_enum(nt * len(ROUTES))
                if how == 'int':
                    ctx.cls('src:int-valued')
        ctx.sample({'check': 'conv-exhaustive', 'fs': list(fs), 'dsts': ndst}, True)


@st.composite
def st_case(draw):
    fs = draw(C.st_fmt())
    # destination: related to the source (so that values are often representable / nearly so) or independent
    if draw(st.booleans()):
        s, w, f = fs
        fd = (draw(st.booleans()), min(max(w + draw(st.integers(-6, 6)), 1), 52), 0)
        fd = (fd[0], fd[1], min(max(f + draw(st.integers(-6, 6)), -8), fd[1] + 8))
    else:
        fd = draw(C.st_fmt())
    shape = draw(st.sampled_from([[], [], [3], [5], [2, 2], [2, 3]]))
    n = int(np.prod(shape)) if shape else 1
    codes = [draw(C.st_code(fs)) for _ in range(n)]
    routes = draw(st.lists(st.sampled_from(ROUTES), min_size=1, max_size=4, unique=True))
    return {'check': 'conv', 'fs': list(fs), 'fd': list(fd), 'ms': list(draw(C.st_modes())), 'md': list(draw(C.st_modes())), 'codes': codes,
            'shape': shape, 'routes': routes, 'how': draw(st.sampled_from(['raw', 'float', 'int']))}


def value_ok_for_how(case):
    """float/int sources need values that are exact doubles inside the C01 core domain."""
    fs = tuple(case['fs'])
    for k in case['codes']:
        v = M.value_of(int(k), fs[2])
        if not (M.is_double(v) and abs(v) < 2 ** 53 and abs(int(k)) < 2 ** 62):
            return False
    return True


def body(ctx, case):
    if case['how'] != 'raw' and not value_ok_for_how(case):
        case = dict(case, how='raw')
    fs, fd = tuple(case['fs']), tuple(case['fd'])
    l2, h2 = M.rng(fd[0], fd[1])
    nt = False
    for k in case['codes']:
        xs = M.scaled(M.value_of(int(k), fs[2]), fd[2])
        if xs.denominator != 1:
            ctx.cls('inexact')
            nt = True
        elif xs > h2 or xs < l2:
            ctx.cls('overflow')
            nt = True
    if len(case['shape']) == 2:
        ctx.cls('shape:2d')
    if case['how'] == 'int':
        ctx.cls('src:int-valued')
    if upshift_bits(fs, fd) >= 63:
        ctx.cls('upshift>=63bits')
    if nt:
        ctx.nontrivial(('conv', repr(sorted((k, repr(v)) for k, v in case.items()))))
    ctx.sample(case, nt)
    check_conv(ctx, case)


@st.composite
def st_chain(draw):
    n = draw(st.integers(2, 6))
    small = draw(st.booleans())
    fmts = [draw(C.st_fmt(max_w=12 if small else 52)) for _ in range(n + 1)]
    shape = draw(st.sampled_from([[], [3], [2, 2]]))
    m = int(np.prod(shape)) if shape else 1
    return {'check': 'chain', 'fmts': [list(f) for f in fmts], 'modes': [list(draw(C.st_modes())) for _ in range(n + 1)],
            'routes': [draw(st.sampled_from(ROUTES)) for _ in range(n)], 'codes': [draw(C.st_code(fmts[0])) for _ in range(m)], 'shape': shape}


def body_chain(ctx, case):
    if len(case['routes']) >= 3:
        ctx.cls('chain>=3')
        ctx.nontrivial(('chain', repr(sorted((k, repr(v)) for k, v in case.items()))))
    ctx.sample(case, len(case['routes']) >= 3)
    check_chain(ctx, case)


def task_hyp(ctx, which, n):
    if which == 'conv':
        run_given(ctx, st_case(), body, n, ctx.task_seed)
    else:
        run_given(ctx, st_chain(), body_chain, n, ctx.task_seed)


def tasks(tier, scale=1.0):
    out = []
    srcs = src_formats(4 if tier == 'quick' else 6)
    n = 16 if tier == 'quick' else 48
    for i in range(n):
        out.append(('exh-%d' % i, 'task_exh', {'sources': srcs[i::n], 'ndst': 14 if tier == 'quick' else 24}))
    nh = int((1500 if tier == 'quick' else 25000) * scale)
    for i in range(12):
        out.append(('hyp-conv-%d' % i, 'task_hyp', {'which': 'conv', 'n': nh}))
    for i in range(4):
        out.append(('hyp-chain-%d' % i, 'task_hyp', {'which': 'chain', 'n': nh // 2}))
    return out
