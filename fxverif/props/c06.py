"""C06 - size inference picks the smallest format that holds the values exactly."""
from fractions import Fraction
import numpy as np
from hypothesis import strategies as st

from .. import model as M
from .. import common as C
from ..runner import run_given

PROPERTY = 'C06'
RULE = ("Fxp(v, [signed], [one or two of n_word/n_frac/n_int]) for dyadic scalars and 1-d/2-d arrays (k/2^f, f<=20, |k|<2^40, k biased to +-2^j, 2^j-1, -2^j+1; plus doubles of either sign with a 40..53-bit odd mantissa over 2^45..2^58 whose exact word still fits 64 bits; a given n_frac may be far larger than needed, up to the 64-bit word limit): inferred format must equal an independent "
        "minimal-format search (fewest fraction bits, then fewest word bits with n_int>=0, + sign bit), values read back exactly with no flag; n_word only => n_frac=min(exact, n_word-sign-n_int_needed); "
        "n_frac only => minimal word for the truncated codes; n_int + one other => arithmetic identity; result then equals the reference quantizer. Capped case: doubles (and arrays of doubles) needing more than 64 bits => n_word<=64, "
        "|q-v|<LSB, no overflow flag, inaccuracy flag iff q!=v. Non-trivial = some value needs a fraction bit or >=8 integer bits, or an array with heterogeneous requirements; distinct = distinct case keys.")
ASSUMPTIONS = ['values are exact doubles / python ints; default configuration (trunc, saturate, n_word_max=64)', 'unsigned zero infers a 0-bit word (fxp-u0/0), accepted as minimal']
EXHAUSTIVE = False
REQUIRED_CLASSES = {'given:none': 500, 'given:n_word': 300, 'given:n_frac': 300, 'given:n_int+n_frac': 100, 'given:n_int+n_word': 100, 'array': 500, 'capped': 200, 'capped-array': 200, 'pow2-boundary': 300}


def vals_of(case):
    return [Fraction(int(k), 1 << int(f)) for k, f in case['vals']]


def build_input(case, vals):
    carrier = case['carrier']
    np_dtype = None
    if carrier == 'int' and all(v.denominator == 1 for v in vals):
        objs = [int(v) for v in vals]
    elif carrier == 'np-narrow':
        # the narrowest numpy dtype that holds every value exactly
        objs = [float(v) for v in vals]
        if all(v.denominator == 1 for v in vals):
            for t in (np.int8, np.uint8, np.int16, np.uint16, np.int32, np.uint32, np.int64):
                info = np.iinfo(t)
                if all(info.min <= v <= info.max for v in vals):
                    np_dtype, objs = t, [int(v) for v in vals]
                    break
        else:
            for t in (np.float16, np.float32):
                with np.errstate(all='ignore'):
                    if all(np.isfinite(t(float(v))) and Fraction(float(t(float(v)))) == v for v in vals):
                        np_dtype = t
                        break
        if np_dtype is not None:
            objs = [np_dtype(o) for o in objs]
    else:
        objs = [float(v) for v in vals]
    shape = case['shape']
    if shape == 'scalar':
        return objs[0]
    if shape == 'list':
        return list(objs)
    if shape == 'array':
        return np.array(objs) if np_dtype is None else np.array(objs, dtype=np_dtype)
    r, c = case['shape2']
    rows = [objs[i * c:(i + 1) * c] for i in range(r)]
    return rows if shape == 'nlist' else (np.array(rows) if np_dtype is None else np.array(rows, dtype=np_dtype))


def check_infer(ctx, case):
    vals = vals_of(case)
    if case['shape'] == 'scalar':
        vals = vals[:1]
    signed = case['signed']
    sg = True if signed is None else bool(signed)
    sign = 1 if sg else 0
    given = {k: v for k, v in case['given'].items() if v is not None}
    F = C.Fxp()
    ctx.ev()
    f_star = max(M.frac_bits_needed(v) for v in vals)
    codes_star = [int(v * (1 << f_star)) for v in vals]
    n_int_needed = max(M.int_bits_needed(codes_star, sg) - f_star, 0)
    gk = '+'.join(sorted(given)) or 'none'
    sig = 'infer/%s/%s' % (gk, 'scalar' if case['shape'] == 'scalar' else 'array')
    # ---- expected format
    if gk == 'none':
        fmt = (sg, n_int_needed + f_star + sign, f_star)
    elif gk == 'n_word':
        w = given['n_word']
        fmt = (sg, w, min(w - sign - n_int_needed, f_star))
    elif gk == 'n_frac':
        nf = given['n_frac']
        ct = [M.ROUND(M.scaled(v, nf), 'trunc') for v in vals]
        ni = max(M.int_bits_needed(ct, sg) - nf, 0)
        fmt = (sg, ni + nf + sign, nf)
    elif gk == 'n_frac+n_int':
        fmt = (sg, given['n_int'] + given['n_frac'] + sign, given['n_frac'])
    elif gk == 'n_int+n_word':
        fmt = (sg, given['n_word'], given['n_word'] - given['n_int'] - sign)
    else:
        raise ValueError(gk)
    if fmt[1] > 64:
        ctx.cls('skipped:over-64')
        return
    inp = build_input(case, vals)

    def do():
        kw = dict(given)
        if signed is not None:
            kw['signed'] = signed
        return F(inp, **kw)
    ok, x = ctx.guard(case, do, sig_prefix=sig + '/')
    if not ok:
        return
    got = C.fmt_of(x)
    if got != fmt:
        ctx.fail(sig + '/format', case, {'expected': fmt, 'got': got, 'vals': [str(v) for v in vals]})
        return
    if x.n_int != fmt[1] - fmt[2] - sign:
        ctx.fail(sig + '/n_int', case, {'n_int': x.n_int})
        return
    if fmt[1] < 1:
        return      # fxp-u0/0 for unsigned zero: nothing more to check
    q = [M.quant(v, fmt[0], fmt[1], fmt[2], 'trunc', 'saturate') for v in vals]
    if fmt[1] > 52 and any(t[1] or t[2] for t in q):
        # overflow into a 53..64-bit word is outside the core domain of C01/C02 (float saturation there is not
        # claimed by any property); C06 only constrains the inferred format in this case
        ctx.cls('format-only:overflow-in-word>52')
        return
    try:
        gc = C.flat(C.codes(x))
    except ValueError as e:
        ctx.fail(sig + '/non-integer-code', case, {'error': str(e)})
        return
    if gc != [t[0] for t in q]:
        ctx.fail(sig + '/codes', case, {'expected': [t[0] for t in q], 'got': gc, 'fmt': fmt})
        return
    want_flags = (any(t[1] for t in q), any(t[2] for t in q), any(t[3] for t in q))
    if C.flags(x) != want_flags:
        ctx.fail(sig + '/flags', case, {'expected': want_flags, 'got': C.flags(x), 'fmt': fmt})
        return
    if gk == 'none' and (want_flags != (False, False, False) or C.values(x) != vals):
        ctx.fail(sig + '/not-exact', case, {'vals': [str(v) for v in vals], 'got': [str(v) for v in C.values(x)]})
        return
    if C.shape_of(x) != np.asarray(inp).shape:
        ctx.fail(sig + '/shape', case, {'got': C.shape_of(x)})


def check_capped_array(ctx, case):
    """Arrays of doubles whose joint exact format would need more than 64 bits: capped word, every element within one LSB."""
    vs = [float.fromhex(h) for h in case['hexes']]
    signed = case['signed']
    F = C.Fxp()
    ctx.ev()
    ctx.cls('capped-array')
    sig = 'capped-array/%s' % case['cont']
    obj = list(vs) if case['cont'] == 'list' else np.array(vs)
    ok, x = ctx.guard(case, lambda: F(obj) if signed is None else F(obj, signed=signed), sig_prefix=sig + '/')
    if not ok:
        return
    s, w, f = C.fmt_of(x)
    if w > 64:
        ctx.fail(sig + '/word>64', case, {'fmt': [s, w, f]})
        return
    try:
        ks = C.flat(C.codes(x))
    except ValueError as e:
        ctx.fail(sig + '/non-integer-code', case, {'error': str(e)})
        return
    lo, hi = M.rng(s, w)
    if any(not lo <= k <= hi for k in ks):
        ctx.fail(sig + '/code-out-of-range', case, {'codes': [str(k) for k in ks], 'fmt': [s, w, f]})
        return
    o, u, ia = C.flags(x)
    if o or u:
        ctx.fail(sig + '/overflow-flag', case, {'flags': [o, u, ia], 'fmt': [s, w, f], 'values': vs})
        return
    for v, k in zip(vs, ks):
        if not abs(M.value_of(k, f) - Fraction(v)) < M.pow2(-f):
            ctx.fail(sig + '/error>=LSB', case, {'v': v, 'q': str(M.value_of(k, f)), 'fmt': [s, w, f]})
            return


def check_capped(ctx, case):
    """Doubles whose exact format would need more than 64 bits."""
    v = float.fromhex(case['hex'])
    signed = case['signed']
    F = C.Fxp()
    ctx.ev()
    ctx.cls('capped')
    sig = 'capped'
    ok, x = ctx.guard(case, lambda: F(v) if signed is None else F(v, signed=signed), sig_prefix=sig + '/')
    if not ok:
        return
    s, w, f = C.fmt_of(x)
    if w > 64:
        ctx.fail(sig + '/word>64', case, {'fmt': [s, w, f]})
        return
    if w < 1:
        return
    try:
        k = C.codes(x)
    except ValueError as e:
        ctx.fail(sig + '/non-integer-code', case, {'error': str(e)})
        return
    lo, hi = M.rng(s, w)
    qv = M.value_of(k, f)
    o, u, ia = C.flags(x)
    if not lo <= k <= hi:
        ctx.fail(sig + '/code-out-of-range', case, {'code': k})
    elif o or u:
        ctx.fail(sig + '/overflow-flag', case, {'flags': [o, u, ia], 'fmt': [s, w, f]})
    elif not abs(qv - Fraction(v)) < M.pow2(-f):
        ctx.fail(sig + '/error>=LSB', case, {'v': v, 'q': str(qv), 'fmt': [s, w, f]})
    elif w < 64 and ia != (qv != Fraction(v)):
        # (for a 64-bit word the library's own inexactness test divides python integers in float; C18 covers wide flags)
        ctx.fail(sig + '/inaccuracy-flag', case, {'v': v, 'q': str(qv), 'flag': ia, 'fmt': [s, w, f]})
    elif w == 64 and qv != Fraction(v) and not ia:
        ctx.fail(sig + '/inaccuracy-flag-missing', case, {'v': v, 'q': str(qv), 'fmt': [s, w, f]})


CHECKS = {'infer': check_infer, 'capped': check_capped, 'capped-array': check_capped_array}


def replay(ctx, case):
    CHECKS[case['check']](ctx, case)


@st.composite
def st_dyadic(draw, nonneg):
    f = draw(st.sampled_from([0, 0, 0, 1, 2, 3, 5, 8, 12, 20]))
    kind = draw(st.sampled_from(['pow2', 'pow2m1', 'negpow2p1', 'small', 'rand', 'zero', 'double']))
    j = draw(st.integers(0, 39))
    if kind == 'double':
        # a non-dyadic-looking double of either sign (like 0.1, -0.3, -5.7): an odd 40..53-bit mantissa over 2^f, f in 45..58,
        # chosen so that the exact word stays within 64 bits
        nb = draw(st.integers(40, 53))
        k = draw(st.integers(1 << (nb - 1), (1 << nb) - 1)) | 1
        f = draw(st.integers(max(45, nb - 4), min(58, 62)))
        if not nonneg and draw(st.booleans()):
            k = -k
        return [k, f], kind
    if kind == 'pow2':
        k = (1 << j) * draw(st.sampled_from([1, -1]))
    elif kind == 'pow2m1':
        k = ((1 << j) - 1) * draw(st.sampled_from([1, -1]))
    elif kind == 'negpow2p1':
        k = -(1 << j) + draw(st.sampled_from([1, -1]))
    elif kind == 'small':
        k = draw(st.integers(-9, 9))
    elif kind == 'zero':
        k = 0
    else:
        k = draw(st.integers(-(1 << 40) + 1, (1 << 40) - 1))
    if abs(k) >= (1 << 40):
        k = (1 << 40) - 1 if k > 0 else -(1 << 40) + 1
    if nonneg:
        k = abs(k)
    # normalise so that f is the exact number of fraction bits needed
    while f > 0 and k % 2 == 0:
        k //= 2
        f -= 1
    return [k, f], kind


@st.composite
def st_case(draw):
    signed = draw(st.sampled_from([None, True, False]))
    shape = draw(st.sampled_from(['scalar', 'scalar', 'list', 'array', 'nlist', 'array2']))
    n = 1
    shape2 = None
    if shape in ('list', 'array'):
        n = draw(st.integers(1, 6))
    elif shape in ('nlist', 'array2'):
        r, c = draw(st.sampled_from([(1, 2), (2, 2), (2, 3), (3, 1)]))
        n, shape2 = r * c, [r, c]
    vals, kinds = [], []
    for _ in range(n):
        v, kind = draw(st_dyadic(signed is False))
        vals.append(v)
        kinds.append(kind)
    vs = [Fraction(k, 1 << f) for k, f in vals]
    sg = True if signed is None else signed
    f_star = max(M.frac_bits_needed(v) for v in vs)
    n_int_needed = max(M.int_bits_needed([int(v * (1 << f_star)) for v in vs], sg) - f_star, 0)
    w_star = n_int_needed + f_star + (1 if sg else 0)
    which = draw(st.sampled_from(['none', 'none', 'n_word', 'n_frac', 'n_int+n_frac', 'n_int+n_word']))
    given = {'n_word': None, 'n_frac': None, 'n_int': None}
    if 'n_word' in which:
        given['n_word'] = max(w_star + draw(st.integers(-2, 3)), 1)
    if 'n_frac' in which:
        given['n_frac'] = max(f_star + draw(st.integers(-2, 2)), 0)
        if which == 'n_frac' and draw(st.integers(0, 3)) == 0:
            # many more fraction bits than the values need, often right up to the 64-bit limit of the word
            given['n_frac'] = draw(st.sampled_from([16, 24, 32, max(64 - (1 if sg else 0) - n_int_needed, f_star), max(63 - (1 if sg else 0) - n_int_needed, f_star), -1, -2, -4]))
    if 'n_int' in which:
        given['n_int'] = max(n_int_needed + draw(st.integers(-1, 2)), 0)
        if given['n_word'] is not None:
            given['n_word'] = max(given['n_word'], given['n_int'] + (1 if sg else 0) + 0, 1)
    return {'check': 'infer', 'vals': vals, 'kinds': kinds, 'signed': signed, 'shape': shape, 'shape2': shape2, 'given': given,
            'carrier': draw(st.sampled_from(['float', 'int', 'np-narrow']))}


def body(ctx, case):
    vs = vals_of(case)
    if case['shape'] == 'scalar':
        vs = vs[:1]
    gk = '+'.join(sorted(k for k, v in case['given'].items() if v is not None)) or 'none'
    ctx.cls('given:' + {'n_frac+n_int': 'n_int+n_frac'}.get(gk, gk))
    if case['shape'] != 'scalar':
        ctx.cls('array')
    if any(k in ('pow2', 'pow2m1', 'negpow2p1') for k in case['kinds'][:len(vs)]):
        ctx.cls('pow2-boundary')
    nt = any(v.denominator != 1 or abs(v) >= 256 for v in vs) or len({(M.frac_bits_needed(v), abs(v.numerator).bit_length()) for v in vs}) > 1
    if nt:
        ctx.nontrivial(('infer', repr(sorted((k, repr(v)) for k, v in case.items()))))
    ctx.sample(case, nt)
    check_infer(ctx, case)


@st.composite
def st_capped(draw):
    m = draw(st.integers(1 << 40, (1 << 53) - 1)) | 1
    e = draw(st.integers(-110, -56))
    v = float(m) * 2.0 ** e * draw(st.sampled_from([1, -1]))
    signed = draw(st.sampled_from([None, True, False]))
    if signed is False:
        v = abs(v)
    if draw(st.booleans()):
        v += float(draw(st.integers(-3, 3))) if signed is not False else float(draw(st.integers(0, 3)))
    return {'check': 'capped', 'hex': float(v).hex(), 'signed': signed}


def body_capped(ctx, case):
    ctx.nontrivial(('capped', case['hex'], case['signed']))
    ctx.sample(case, True)
    check_capped(ctx, case)


@st.composite
def st_capped_array(draw):
    signed = draw(st.sampled_from([None, True, False]))
    n = draw(st.integers(2, 4))
    hexes = []
    for i in range(n):
        if draw(st.booleans()):
            # a moderately large value with a short fraction
            v = float(draw(st.integers(1, 1 << draw(st.integers(4, 30))))) + draw(st.sampled_from([0.0, 0.5, 0.25]))
        else:
            # a small non-dyadic-looking double needing ~50 fraction bits
            v = draw(st.integers(1, 999)) / draw(st.sampled_from([10.0, 3.0, 7.0, 1000.0]))
        if signed is not False and draw(st.booleans()):
            v = -v
        hexes.append(float(v).hex())
    return {'check': 'capped-array', 'hexes': hexes, 'signed': signed, 'cont': draw(st.sampled_from(['list', 'array']))}


def body_capped_array(ctx, case):
    ctx.nontrivial(('capped-array', tuple(case['hexes']), case['signed'], case['cont']))
    ctx.sample(case, True)
    check_capped_array(ctx, case)


def task_hyp(ctx, which, n):
    if which == 'capped-array':
        return run_given(ctx, st_capped_array(), body_capped_array, n, ctx.task_seed)
    if which == 'infer':
        run_given(ctx, st_case(), body, n, ctx.task_seed)
    else:
        run_given(ctx, st_capped(), body_capped, n, ctx.task_seed)


def tasks(tier, scale=1.0):
    nh = int((2500 if tier == 'quick' else 40000) * scale)
    out = [('hyp-infer-%d' % i, 'task_hyp', {'which': 'infer', 'n': nh}) for i in range(14)]
    out += [('hyp-capped-%d' % i, 'task_hyp', {'which': 'capped', 'n': nh // 2}) for i in range(2)]
    out += [('hyp-capped-array-%d' % i, 'task_hyp', {'which': 'capped-array', 'n': nh // 2}) for i in range(2)]
    return out
