"""C15 - NumPy reductions and linear algebra on fixed-point arrays are exact."""
from fractions import Fraction
import numpy as np
from hypothesis import strategies as st

from .. import model as M
from .. import common as C
from ..runner import run_given
from ..stateful import Mismatch

PROPERTY = 'C15'
RULE = ("sum, cumsum, prod, cumprod, dot, matmul, trace, max, min, sort, clip, transpose, diagonal on fixed-point arrays of shapes (1..8,) and up to 3x3, n_word<=12, through the numpy function and the method, "
        "axis None, any valid axis, both axes as a tuple, keepdims (diagonal/trace also with axis1/axis2 exchanged; transpose: no axes / any permutation as axes / .T; clip: both limits, one limit, list / ndarray / fixed-point limits which must come back unmodified, raw and repr method); elements all-lowest, all-highest, alternating extremes or random; dot/matmul (np.dot, x.dot, np.matmul, x @ y; with the array_op_method option at its default, 'raw' or 'repr') with a second operand of independent format and signedness (1-d.1-d, 2-d.1-d, 2-d.2-d). "
        "Oracle: the same numpy reduction applied to an object array of Fractions built from the codes (numpy only iterates, the arithmetic is Fraction's): exact values and shape; result is an Fxp; "
        "no overflow/underflow flag for the accumulating functions; both routes agree. Result word <=53 (prod/cumprod only when n*n_word<=53). "
        "Non-trivial = >=2 elements with at least one extreme, or axis not None, or mixed signedness in dot; distinct = distinct case keys.")
ASSUMPTIONS = ['operands created from raw codes with default configuration', 'numpy is trusted to iterate object arrays']
EXHAUSTIVE = False
REQUIRED_CLASSES = {'all-extreme': 1000, 'axis': 1000, 'dot-mixed-sign': 200, 'route:method': 2000, 'route:numpy': 2000}
ACC = ('sum', 'cumsum', 'prod', 'cumprod', 'trace', 'dot', 'matmul')
ONE = ('sum', 'cumsum', 'prod', 'cumprod', 'trace', 'max', 'min', 'sort', 'clip', 'transpose', 'diagonal')


def fclass(fmt):
    """Input class of the operand format: fraction length below, inside or above the word."""
    return 'nfrac<0' if fmt[2] < 0 else 'nfrac>nword' if fmt[2] > fmt[1] else 'nfrac-in-word'


def frac_array(codes, fmt, shape):
    a = np.empty(len(codes), dtype=object)
    for i, k in enumerate(codes):
        a[i] = M.value_of(int(k), fmt[2])
    return a.reshape(shape)


def to_fracs(z):
    g = np.asarray(z.get_val())
    fl = g.ravel().tolist() if g.ndim else [g.item()]
    return [C.frac_of(e) for e in fl], tuple(g.shape)


def flat_expected(e):
    a = np.asarray(e, dtype=object)
    fl = a.ravel().tolist() if a.ndim else [a.item()]
    return [Fraction(v) for v in fl], tuple(a.shape)


def check_func(ctx, case):
    fmt = tuple(case['fmt'])
    shape = tuple(case['shape'])
    codes = [int(k) for k in case['codes']]
    func, route, axis = case['func'], case['route'], case.get('axis')
    F = C.Fxp()
    ctx.ev()
    sig = 'func/%s/%s/%s' % (func, fclass(fmt), route)
    A = frac_array(codes, fmt, shape)
    kw = {}
    if func in ('sum', 'cumsum', 'prod', 'cumprod', 'max', 'min'):
        kw['axis'] = tuple(axis) if isinstance(axis, list) else axis
        if case.get('keepdims'):
            kw['keepdims'] = True
        expected = getattr(np, func)(A, **kw)
    elif func == 'sort':
        ax = -1 if axis is None else axis
        kw['axis'] = ax
        expected = np.sort(A, axis=ax)
    elif func == 'clip':
        lo_v = Fraction(case['clip'][0][0], case['clip'][0][1])
        hi_v = Fraction(case['clip'][1][0], case['clip'][1][1])
        bounds = case.get('bounds', 'both')        # both | lo | hi | array | list
        expected = np.array([min(max(v, lo_v) if bounds != 'hi' else v, hi_v) if bounds != 'lo' else max(v, lo_v) for v in A.ravel().tolist()], dtype=object).reshape(A.shape)
        sig += '/bounds:' + bounds + ('/repr' if case.get('method', 'raw') == 'repr' else '') + ('/min-max-keywords' if case.get('kwnames') and bounds == 'both' else '')
    elif func == 'transpose':
        axes = case.get('axes')
        expected = np.transpose(A, axes=axes)
        if axes is not None:
            sig += '/axes'
    elif func in ('diagonal', 'trace'):
        kw['offset'] = case.get('offset', 0)
        if case.get('swap_axes'):
            kw['axis1'], kw['axis2'] = 1, 0
        expected = getattr(np, func)(A, **kw)
    else:
        raise ValueError(func)

    def do():
        x = F(np.array(codes, dtype=np.int64).reshape(shape), fmt[0], fmt[1], fmt[2], raw=True, op_method=case.get('method', 'raw'))
        before = C.flat(C.codes(x))
        if func == 'clip' and bounds == 'fxp':
            # the limits are fixed-point objects themselves (same format as the array)
            la, lb = F(float(lo_v), fmt[0], fmt[1], fmt[2]), F(float(hi_v), fmt[0], fmt[1], fmt[2])
            if C.values(la) != [lo_v] or C.values(lb) != [hi_v]:
                raise AssertionError('harness: limit objects do not hold the limits')
            z = np.clip(x, la, lb) if route == 'numpy' else x.clip(la, lb)
            if C.values(la) != [lo_v] or C.values(lb) != [hi_v]:
                raise Mismatch('caller-limits-modified', {})
        elif func == 'clip':
            a, b = float(lo_v), float(hi_v)
            if bounds == 'lo':
                z = np.clip(x, a, None) if route == 'numpy' else x.clip(a)
            elif bounds == 'hi':
                z = np.clip(x, None, b) if route == 'numpy' else x.clip(a_max=b)
            elif bounds in ('array', 'list'):
                n = shape[-1]
                la, lb = ([a] * n, [b] * n) if bounds == 'list' else (np.full(n, a), np.full(n, b))
                z = np.clip(x, la, lb) if route == 'numpy' else x.clip(la, lb)
                if list(la) != [a] * n or list(lb) != [b] * n:
                    raise Mismatch('caller-limits-modified', {'a_min': [float(v) for v in la], 'a_max': [float(v) for v in lb]})
            elif case.get('kwnames') == 'numpy2':
                # numpy's newer names of the two limits
                z = np.clip(x, min=a, max=b) if route == 'numpy' else x.clip(min=a, max=b)
            else:
                z = np.clip(x, a, b) if route == 'numpy' else x.clip(a, b)
        elif func == 'transpose' and case.get('axes') is not None:
            z = np.transpose(x, case['axes']) if route == 'numpy' else x.transpose(axes=tuple(case['axes']))
        elif func == 'transpose' and case.get('T'):
            z = x.T
        elif func == 'sort' and route == 'method':
            z = x.deepcopy()
            z.sort(**kw)
        elif route == 'numpy':
            z = getattr(np, func)(x, **kw)
        else:
            z = getattr(x, func)(**kw)
        return x, z, before
    try:
        ok, res = ctx.guard(case, do, sig_prefix=sig + '/')
    except Mismatch as e:
        ctx.fail('%s/%s' % (sig, e.sig), case, e.detail)
        return
    if not ok:
        return
    x, z, before = res
    if not isinstance(z, F):
        ctx.fail(sig + '/not-fxp', case, {'type': str(type(z))})
        return
    if C.flat(C.codes(x)) != before:
        ctx.fail(sig + '/operand-modified', case, {})
        return
    got, gshape = to_fracs(z)
    want, wshape = flat_expected(expected)
    if gshape != wshape:
        ctx.fail(sig + '/shape', case, {'expected': list(wshape), 'got': list(gshape)})
        return
    if got != want:
        ctx.fail('%s/value/%s' % (sig, 'axis' if axis is not None else 'flat'), case,
                 {'expected': [str(v) for v in want], 'got': [str(v) for v in got], 'dtype': z.dtype})
        return
    if func in ACC and any(C.flags(z)[:2]):
        ctx.fail(sig + '/flags', case, {'flags': C.flags(z), 'dtype': z.dtype})
        return
    try:
        zc = C.flat(C.codes(z))
    except ValueError as e:
        ctx.fail(sig + '/non-integer-code', case, {'error': str(e)})
        return
    lo, hi = M.rng(z.signed, z.n_word)
    if any(not lo <= k <= hi for k in zc):
        ctx.fail(sig + '/code-out-of-range', case, {'codes': zc, 'dtype': z.dtype})


def check_dot(ctx, case):
    fx, fy = tuple(case['fx']), tuple(case['fy'])
    sx, sy = tuple(case['shape_x']), tuple(case['shape_y'])
    cx, cy = [int(k) for k in case['cx']], [int(k) for k in case['cy']]
    func, route = case['func'], case['route']
    F = C.Fxp()
    ctx.ev()
    sig = 'func/%s/%s/%s%s' % (func, fclass(fx) if fclass(fx) != 'nfrac-in-word' else fclass(fy), route, '/array_op_method=' + case['array_op_method'] if case.get('array_op_method') else '')
    A, B = frac_array(cx, fx, sx), frac_array(cy, fy, sy)
    expected = np.dot(A, B)

    def do():
        x = F(np.array(cx, dtype=np.int64).reshape(sx), fx[0], fx[1], fx[2], raw=True)
        y = F(np.array(cy, dtype=np.int64).reshape(sy), fy[0], fy[1], fy[2], raw=True)
        if case.get('array_op_method'):
            x.config.array_op_method = y.config.array_op_method = case['array_op_method']
        if func == 'matmul':
            if route == 'operator':
                try:
                    return x @ y
                except TypeError as e:
                    if 'unsupported operand' in str(e):
                        raise Mismatch('operator-not-supported', {'error': str(e)[:120]})
                    raise
            return np.matmul(x, y)
        return np.dot(x, y) if route == 'numpy' else x.dot(y)
    try:
        ok, z = ctx.guard(case, do, sig_prefix=sig + '/')
    except Mismatch as e:
        ctx.fail('%s/%s' % (sig, e.sig), case, e.detail)
        return
    if not ok:
        return
    if not isinstance(z, F):
        ctx.fail(sig + '/not-fxp', case, {'type': str(type(z))})
        return
    got, gshape = to_fracs(z)
    want, wshape = flat_expected(expected)
    if gshape != wshape:
        ctx.fail(sig + '/shape', case, {'expected': list(wshape), 'got': list(gshape)})
        return
    if got != want:
        ctx.fail('%s/value/%s%s' % (sig, 's' if fx[0] else 'u', 's' if fy[0] else 'u'), case,
                 {'expected': [str(v) for v in want], 'got': [str(v) for v in got], 'dtype': z.dtype})
        return
    if any(C.flags(z)[:2]):
        ctx.fail(sig + '/flags', case, {'flags': C.flags(z), 'dtype': z.dtype})


CHECKS = {'func': check_func, 'dot': check_dot}


def replay(ctx, case):
    CHECKS[case['check']](ctx, case)


@st.composite
def st_elems(draw, fmt, n):
    lo, hi = M.rng(fmt[0], fmt[1])
    kind = draw(st.sampled_from(['all-lo', 'all-hi', 'alt', 'rand', 'rand']))
    if kind == 'all-lo':
        return [lo] * n, kind
    if kind == 'all-hi':
        return [hi] * n, kind
    if kind == 'alt':
        return [lo if i % 2 else hi for i in range(n)], kind
    return [draw(C.st_code(fmt)) for _ in range(n)], kind


@st.composite
def st_fmt15(draw, max_w=12):
    w = draw(st.integers(1, max_w))
    s = draw(st.booleans())
    f = draw(st.integers(-2, w + 2))
    return (s, w, f)


@st.composite
def st_func(draw):
    func = draw(st.sampled_from(ONE + ('clip', 'clip')))          # clip has the most argument forms
    shape = draw(st.sampled_from([[1], [2], [3], [5], [7], [8], [1, 1], [2, 2], [2, 3], [3, 2], [3, 3], [1, 3], [3, 1]]))
    if func in ('trace', 'diagonal') and len(shape) == 1:
        shape = draw(st.sampled_from([[2, 2], [3, 3], [2, 3], [3, 2]]))
    n = int(np.prod(shape))
    fmt = draw(st_fmt15())
    axis = None
    case_keepdims = False
    if func in ('sum', 'cumsum', 'prod', 'cumprod', 'max', 'min', 'sort'):
        axis = draw(st.sampled_from([None] + list(range(len(shape))) + [-1]))
    if func in ('sum', 'prod', 'max', 'min') and len(shape) == 2:
        v = draw(st.integers(0, 5))
        if v == 0 and func != 'prod':
            axis = [0, 1]                      # a tuple of axes (all of them); prod rejects tuples with a TypeError
        elif v == 1 and axis is not None:
            case_keepdims = True
    if func in ('prod', 'cumprod'):
        # result word n*w must stay <= 53
        nn = n if (axis is None or isinstance(axis, list) or func == 'cumprod') else shape[axis]
        while nn * fmt[1] > 53:
            fmt = (fmt[0], max(fmt[1] - 1, 1), min(fmt[2], max(fmt[1] - 1, 1) + 2))
    codes, kind = draw(st_elems(fmt, n))
    case = {'check': 'func', 'func': func, 'fmt': list(fmt), 'shape': shape, 'codes': codes, 'kind': kind, 'axis': axis,
            'route': draw(st.sampled_from(['numpy', 'method']))}
    if case_keepdims:
        case['keepdims'] = True
    if func == 'clip':
        lo, hi = M.rng(fmt[0], fmt[1])
        a = draw(st.integers(lo, hi))
        b = draw(st.integers(a, hi))
        den = 1 << max(fmt[2], 0)
        mul = 1 << max(-fmt[2], 0)
        case['clip'] = [[a * mul, den], [b * mul, den]]
        case['bounds'] = draw(st.sampled_from(['both', 'lo', 'hi', 'array', 'list', 'fxp', 'fxp']))
        case['method'] = draw(st.sampled_from(['raw', 'repr']))
        if case['bounds'] == 'both' and draw(st.booleans()):
            case['kwnames'] = 'numpy2'
    if func == 'transpose':
        kind_t = draw(st.sampled_from(['plain', 'axes', 'axes', 'T']))
        if kind_t == 'axes':
            case['axes'] = draw(st.permutations(list(range(len(shape)))))
        elif kind_t == 'T':
            case['T'] = True
            case['route'] = 'method'
    if func in ('trace', 'diagonal'):
        # only offsets whose diagonal has at least one element (an empty result cannot be held by an Fxp)
        r, c = shape
        swap = draw(st.integers(0, 3)) == 0
        if swap:
            case['swap_axes'] = True
            r, c = c, r
        case['offset'] = draw(st.sampled_from([o for o in (0, 0, 1, -1) if (min(r, c - o) if o >= 0 else min(r + o, c)) >= 1]))
    return case


@st.composite
def st_dot(draw):
    fx, fy = draw(st_fmt15()), draw(st_fmt15())
    dims = draw(st.sampled_from(['1-1', '2-1', '2-2']))
    k = draw(st.integers(1, 3)) if dims != '1-1' else draw(st.integers(1, 8))
    if dims == '1-1':
        sx, sy = [k], [k]
    elif dims == '2-1':
        sx, sy = [draw(st.integers(1, 3)), k], [k]
    else:
        sx, sy = [draw(st.integers(1, 3)), k], [k, draw(st.integers(1, 3))]
    cx, kx = draw(st_elems(fx, int(np.prod(sx))))
    cy, ky = draw(st_elems(fy, int(np.prod(sy))))
    func = draw(st.sampled_from(['dot', 'dot', 'matmul']))
    return {'check': 'dot', 'func': func, 'fx': list(fx), 'fy': list(fy), 'shape_x': sx, 'shape_y': sy, 'cx': cx, 'cy': cy,
            'kind': kx + '/' + ky, 'route': draw(st.sampled_from(['numpy', 'method'])) if func == 'dot' else draw(st.sampled_from(['numpy', 'operator'])),
            'array_op_method': draw(st.sampled_from([None, None, 'raw', 'repr']))}


def body(ctx, case):
    ctx.cls('route:' + case['route'])
    ctx.cls('func:' + case['func'])
    ctx.cls(fclass(tuple(case['fmt'] if case['check'] == 'func' else case['fx'])))
    nt = False
    if case['check'] == 'func':
        n = len(case['codes'])
        if case['kind'] in ('all-lo', 'all-hi', 'alt'):
            ctx.cls('all-extreme')
            nt = n >= 2
        if case.get('axis') is not None:
            ctx.cls('axis')
            nt = True
    else:
        if case['fx'][0] != case['fy'][0]:
            ctx.cls('dot-mixed-sign')
            nt = True
        if 'all' in case['kind'] or 'alt' in case['kind']:
            ctx.cls('all-extreme')
            nt = True
    if nt:
        ctx.nontrivial(('c15', repr(sorted((k, repr(v)) for k, v in case.items()))))
    ctx.sample(case, nt)
    CHECKS[case['check']](ctx, case)


def task_hyp(ctx, which, n):
    run_given(ctx, st_func() if which == 'func' else st_dot(), body, n, ctx.task_seed)


def tasks(tier, scale=1.0):
    nh = int((1500 if tier == 'quick' else 25000) * scale)
    out = [('hyp-func-%d' % i, 'task_hyp', {'which': 'func', 'n': nh}) for i in range(12)]
    out += [('hyp-dot-%d' % i, 'task_hyp', {'which': 'dot', 'n': nh}) for i in range(4)]
    return out
