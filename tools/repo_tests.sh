#!/bin/sh
# Run the repository's pinned baseline suite (guard off) and check that all 86 stable tests pass.
REPO="${FXP_REPO:-/repo}"
OUT="$(mktemp -d)"
cd "$REPO" || exit 2
env -u FXPMATH_VERIF /venv/bin/python -m pytest -ra -q -p no:cacheprovider --timeout=900 --continue-on-collection-errors --junitxml="$OUT/j.xml" >"$OUT/log" 2>&1
/venv/bin/python - "$OUT/j.xml" <<'PY'
import json, sys, xml.etree.ElementTree as ET
base = json.load(open('/root/.vp/BASELINE.json'))
ok = set()
for tc in ET.parse(sys.argv[1]).getroot().iter('testcase'):
    name = tc.get('classname') + '::' + tc.get('name')
    if not any(ch.tag in ('failure', 'error', 'skipped') for ch in tc):
        ok.add(name)
missing = [t for t in base['stable_pass'] if t not in ok]
print('baseline stable tests passing: %d/%d' % (len(base['stable_pass']) - len(missing), len(base['stable_pass'])))
for m in missing:
    print('NOT PASSING:', m)
sys.exit(1 if missing else 0)
PY
rc=$?
rm -rf "$OUT"
exit $rc
