#!/bin/sh
# Regenerate everything that must come from the final commit: evidence (quick tier, VERIF_SEED=1), manifest, tables.
cd "$(dirname "$0")/.." || exit 2
VERIF_SEED=1 sh tools/run_all.sh quick | grep -E "^exit|^VIOLATION|^KNOWN|^INCONCL|^HARNESS" | cut -c1-170
./tools/gen_manifest.py && ./tools/gen_design_tables.py && ./tools/validate.py
