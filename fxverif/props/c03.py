"""C03 - wrap overflow is exact two's-complement modular arithmetic."""
from fractions import Fraction
import numpy as np
from hypothesis import strategies as st

from .. import model as M
from .. import common as C
from ..runner import run_given
from .c01 import store, stored_codes, small_formats

PROPERTY = 'C03'
RULE = ("Under overflow='wrap': stored code must satisfy lo<=code<=hi AND code == ROUND(x) (mod 2^n_word) (two independent conditions; the model's OVERFLOW is not used); "
        "metamorphic: storing v+j*2^(n_word-n_frac), j in -3..3, stores the same code; register: add/sub/mul of two wrap operands into a wrap out_like of n_word bits "
        "equals (ka op kb) mod 2^n_word, for n_word<=52 and 64..256; register-mixed: operands of independent formats (n_word<=52) delivered through out_like / out / numpy out= / call / config.op_out into a wrap register of a third format (n_word<=52 or 64..256, usually fewer fraction bits than the exact result, any rounding mode): code == ROUND(exact*2^n_frac) (mod 2^n_word); register-reduce: the same for sum / cumsum / max / min / dot of arrays delivered into such a register (out=, method out_like=, numpy out=, call). Generated: exhaustive quarter-LSB grid over 3x range for n_word<=6; Hypothesis formats up to 52 bits with bases "
        "at multiples of 2^n_word +- small on both sides; n_word 64..256 with Python-int inputs up to 4*n_word bits (raw and integer-value mode; value mode with n_frac in {0,1,3,n_word//2,-1,-4,-8}, negative n_frac rounding exactly). "
        "Non-trivial = ROUND(x) outside [lo,hi]; distinct = distinct (format, rounding, route, input).")
ASSUMPTIONS = ['core-domain inputs are exact doubles; wide formats use Python-int inputs only (float inputs into >=64-bit words are outside the statement)',
               'ROUND of the reference model is trusted (cross-checked relationally by C05)']
EXHAUSTIVE = False    # the whole quantifier is not enumerated; complete sub-domains are listed in EXHAUSTIVE_SUBDOMAINS
EXHAUSTIVE_SUBDOMAINS = {'quick': ['quarter-LSB grid over 3x range, n_word<=6, all n_frac, 5 roundings, wrap'], 'thorough': ['same, n_word<=7']}
REQUIRED_CLASSES = {'fxp-source': 300, 'register-mixed:exact>53bits-coarser-target': 500, 'register-reduce:beyond-53-or-63-bits': 300, 'wrapped': 500, 'wide': 300, 'wide:nfrac<0': 100, 'shift-invariance': 300, 'register': 300, 'resign': 500}


def wrap_ok(code, r, fmt):
    lo, hi = M.rng(fmt[0], fmt[1])
    return lo <= code <= hi and (code - r) % (1 << fmt[1]) == 0


def check_grid(ctx, case):
    fmt = tuple(case['fmt'])
    s, w, f = fmt
    rounding = case['rounding']
    route = case['route']
    lo, hi = M.rng(s, w)
    span = 1 << w
    x4s = case.get('x4s') or list(range(4 * (lo - span), 4 * (hi + span) + 1))
    arr = np.array([float(C.v_from_x4(x4, f)) for x4 in x4s])
    sig = 'grid/%s' % route
    ok, res = ctx.guard(case, store, fmt, (rounding, 'wrap'), arr, route, '1d', len(x4s), (1, len(x4s)), sig_prefix=sig + '/')
    ctx.ev(len(x4s))
    if not ok:
        return
    got = stored_codes(*res)
    for x4, k in zip(x4s, got):
        r = M.ROUND(Fraction(x4, 4), rounding)
        if not wrap_ok(k, r, fmt):
            side = 'over' if r > hi else 'under' if r < lo else 'in'
            ctx.fail('%s/congruence/%s/%s' % (sig, side, 's' if s else 'u'), dict(case, x4s=[x4]), {'x4': x4, 'rounded': r, 'code': k})
            return


def check_wrap(ctx, case):
    """One scalar/array store under wrap + shift invariance."""
    fmt = tuple(case['fmt'])
    s, w, f = fmt
    rounding = case['rounding']
    route = case['route']
    how = case['how']
    x4s = list(case['x4s'])
    lo, hi = M.rng(s, w)
    vs = [C.v_from_x4(x4, f) for x4 in x4s]
    sig = 'wrap/%s/%s' % (how, route)
    obj = np.array([float(v) for v in vs]) if how == 'array' else (int(vs[0]) if how == 'int' else float(vs[0]))
    if how == 'fxp':
        # the quarter-LSB value held exactly by another fixed-point object with two more fraction bits (same integer bits when the
        # value lies inside the target's range): the rounding carry at the top of the range must wrap like any other input
        x4 = int(x4s[0])
        w_src = max(w + 2, x4.bit_length() + (1 if (s or x4 < 0) else 0))      # the narrowest word that holds it (same integer bits inside the range)
        if w_src > 62:
            how, sig = 'float', 'wrap/float/%s' % route
        else:
            ctx.cls('fxp-source')
            obj = C.Fxp()(x4, bool(s or x4 < 0), w_src, f + 2, raw=True)
    n = len(vs) if how == 'array' else 1
    ok, res = ctx.guard(case, store, fmt, (rounding, 'wrap'), obj, route, '1d' if how == 'array' else 'scalar', n, (1, n), sig_prefix=sig + '/')
    ctx.ev()
    if not ok:
        return
    got = stored_codes(*res)
    for v, k, x4 in zip(vs, got, x4s):
        r = M.ROUND(M.scaled(v, f), rounding)
        if not wrap_ok(k, r, fmt):
            side = 'over' if r > hi else 'under' if r < lo else 'in'
            ctx.fail('%s/congruence/%s/%s' % (sig, side, 's' if s else 'u'), dict(case, x4s=[x4], how=how if how != 'array' else 'array'),
                     {'v': str(v), 'rounded': r, 'code': k})
            return
    # shift invariance on the first element (scalar float route)
    j = case.get('j', 0)
    if j:
        period = M.pow2(w - f)
        v2 = vs[0] + j * period
        x2 = M.scaled(v2, f)
        x1 = M.scaled(vs[0], f)
        # trunc/fix round toward zero, so they commute with the shift only when the sign is kept (or x is whole)
        commutes = rounding in ('floor', 'ceil', 'around') or x1.denominator == 1 or (x1 > 0) == (x2 > 0)
        if commutes and M.is_double(v2) and abs(v2) < 2 ** 53 and abs(x2) < 2 ** 62:
            ctx.cls('shift-invariance')
            ok, res = ctx.guard(case, store, fmt, (rounding, 'wrap'), float(v2), 'ctor', 'scalar', 1, (1, 1), sig_prefix=sig + '/shift/')
            if not ok:
                return
            k2 = stored_codes(*res)[0]
            if k2 != got[0]:
                ctx.fail('%s/shift-invariance' % sig, case, {'v': str(vs[0]), 'v_shifted': str(v2), 'code': got[0], 'code_shifted': k2})


def check_wide(ctx, case):
    """n_word in 64..256, Python-int input of any size, raw mode or integer-value mode."""
    fmt = tuple(case['fmt'])
    s, w, f = fmt
    k_in = int(case['k'])
    mode = case['mode']     # 'raw' or 'value'
    route = case['route']
    F = C.Fxp()
    lo, hi = M.rng(s, w)
    if mode == 'raw':
        r = k_in
    elif f >= 0:
        r = k_in * (1 << f)
    else:
        r = M.ROUND(Fraction(k_in, 1 << -f), case.get('rounding', 'trunc'))   # negative n_frac: the low bits are rounded away, exactly
    sig = 'wide/%s/%s%s' % (mode, route, '/nfrac<0' if f < 0 and mode != 'raw' else '')
    ctx.ev()

    def do():
        kw = dict(overflow='wrap', rounding=case.get('rounding', 'trunc'))
        if route == 'ctor':
            return F(k_in, s, w, f, raw=(mode == 'raw'), **kw)
        x = F(None, s, w, f, **kw)
        if route == 'set_val':
            x.set_val(k_in, raw=(mode == 'raw'))
        else:
            if mode == 'raw':
                x.set_val(k_in, raw=True)
            else:
                x(k_in)
        return x
    ok, x = ctx.guard(case, do, sig_prefix=sig + '/')
    if not ok:
        return
    try:
        k = C.codes(x)
    except ValueError as e:
        ctx.fail(sig + '/non-integer-code', case, {'error': str(e)})
        return
    if not isinstance(np.asarray(x.val).item(), int):
        ctx.fail(sig + '/code-not-python-int', case, {'type': str(type(np.asarray(x.val).item()))})
        return
    if not wrap_ok(k, r, fmt):
        side = 'over' if r > hi else 'under' if r < lo else 'in'
        ctx.fail('%s/congruence/%s/%s' % (sig, side, 's' if s else 'u'), case, {'rounded': str(r), 'code': str(k)})


def check_register(ctx, case):
    """(a op b) stored into a wrap register of the operands' own format."""
    fmt = tuple(case['fmt'])
    s, w, f = fmt
    ka, kb = int(case['ka']), int(case['kb'])
    op = case['op']
    import fxpmath
    F = C.Fxp()
    ctx.ev()
    sig = 'register/%s/%s' % (op, 'wide' if w >= 64 else 'core')
    if op == 'mul':
        exact = ka * kb            # code of the exact product at 2f fraction bits
        # keep n_frac of the register at f: product code rescaled by 2^-f must be an integer => use f=0 operands for mul
        want_r = exact
    else:
        want_r = ka + kb if op == 'add' else ka - kb

    def do():
        a = F(ka, s, w, f, raw=True, overflow='wrap')
        b = F(kb, s, w, f, raw=True, overflow='wrap')
        T = F(None, s, w, f if op != 'mul' else 2 * f, overflow='wrap')
        fn = getattr(fxpmath, op)
        z1 = fn(a, b, out_like=T)
        out = F(None, s, w, f if op != 'mul' else 2 * f, overflow='wrap')
        z2 = fn(a, b, out=out)
        # sizing policy 'same' on wrap operands (the result inherits the first operand's wrap configuration)
        z3 = fn(a, b, sizing='same')
        # the exact (optimally sized) result stored into a wrap object of the register's format, by call and by equal()
        reg = F(None, s, w, f if op != 'mul' else 2 * f, overflow='wrap')
        z4 = reg(fn(a, b))
        reg2 = F(None, s, w, f if op != 'mul' else 2 * f, overflow='wrap')
        z5 = reg2.equal(fn(a, b))
        # operator form with the sizing taken from the configuration
        a.config.op_sizing = 'same'
        z6 = (a + b) if op == 'add' else (a - b) if op == 'sub' else (a * b)
        return z1, z2, z3, z4, z5, z6
    ok, res = ctx.guard(case, do, sig_prefix=sig + '/')
    if not ok:
        return
    for name, z in zip(('out_like', 'out', 'sizing-same', 'store-call', 'store-equal', 'operator-same'), res):
        if name in ('sizing-same', 'operator-same') and op == 'mul' and f != 0:
            continue
        try:
            k = C.codes(z)
        except ValueError as e:
            ctx.fail('%s/%s/non-integer-code' % (sig, name), case, {'error': str(e)})
            return
        if C.fmt_of(z)[:2] != (s, w) or not wrap_ok(k, want_r, fmt):
            ctx.fail('%s/%s/congruence' % (sig, name), case, {'want_mod': str(want_r % (1 << w)), 'code': str(k), 'fmt': C.fmt_of(z)})
            return


def check_register_mixed(ctx, case):
    """(a op b) of operands in their own formats delivered into a wrap register of a third format (usually with fewer
    fraction bits than the exact result): the code is congruent to ROUND(exact * 2^n_frac) modulo 2^n_word."""
    fa, fb, fd = tuple(case['fa']), tuple(case['fb']), tuple(case['fd'])
    ka, kb = int(case['ka']), int(case['kb'])
    op, rounding = case['op'], case['rounding']
    import fxpmath
    F = C.Fxp()
    ctx.ev()
    va, vb = M.value_of(ka, fa[2]), M.value_of(kb, fb[2])
    v = va * vb if op == 'mul' else va + vb if op == 'add' else va - vb
    want_r = M.ROUND(v * M.pow2(fd[2]), rounding)
    exact_f = fa[2] + fb[2] if op == 'mul' else max(fa[2], fb[2])
    sig = 'register-mixed/%s/%s/%s' % (op, 'wide' if fd[1] >= 64 else 'core', 'coarser' if fd[2] < exact_f else 'finer-or-equal')

    def do():
        a = F(ka, fa[0], fa[1], fa[2], raw=True)
        b = F(kb, fb[0], fb[1], fb[2], raw=True)
        mkreg = lambda: F(None, fd[0], fd[1], fd[2], overflow='wrap', rounding=rounding)
        fn = getattr(fxpmath, op)
        npf = {'add': np.add, 'sub': np.subtract, 'mul': np.multiply}[op]
        z1 = fn(a, b, out_like=mkreg())
        z2 = fn(a, b, out=mkreg())
        z3 = npf(a, b, out=mkreg())
        z4 = mkreg()(fn(a, b))
        ac = a.deepcopy()
        ac.config.op_out = mkreg()
        z5 = (ac + b) if op == 'add' else (ac - b) if op == 'sub' else (ac * b)
        return z1, z2, z3, z4, z5
    ok, res = ctx.guard(case, do, sig_prefix=sig + '/')
    if not ok:
        return
    neg_unsigned = op == 'sub' and not fa[0] and not fb[0] and v < 0
    for name, z in zip(('out_like', 'out', 'numpy-out', 'store-call', 'config-out'), res):
        if name == 'store-call' and neg_unsigned:
            continue        # the optimally sized intermediate of two unsigned operands is unsigned: it clamps at 0 (C07)
        try:
            k = C.codes(z)
        except ValueError as e:
            ctx.fail('%s/%s/non-integer-code' % (sig, name), case, {'error': str(e)})
            return
        if C.fmt_of(z) != (bool(fd[0]), fd[1], fd[2]) or not wrap_ok(k, want_r, fd):
            ctx.fail('%s/%s/congruence' % (sig, name), case, {'rounded': str(want_r), 'want_mod': str(want_r % (1 << fd[1])), 'code': str(k), 'fmt': C.fmt_of(z)})
            return


def check_register_reduce(ctx, case):
    """sum / cumsum / dot of arrays accumulated into a wrap register of another format (a MAC accumulator)."""
    fa, fb, fd = tuple(case['fa']), tuple(case['fb']), tuple(case['fd'])
    kas, kbs = [int(k) for k in case['ka']], [int(k) for k in case['kb']]
    op, rounding = case['op'], case['rounding']
    import fxpmath
    F = C.Fxp()
    ctx.ev()
    vas, vbs = [M.value_of(k, fa[2]) for k in kas], [M.value_of(k, fb[2]) for k in kbs]
    if op == 'sum':
        exact = [sum(vas)]
    elif op == 'cumsum':
        exact = [sum(vas[:i + 1]) for i in range(len(vas))]
    elif op in ('max', 'min'):
        exact = [max(vas) if op == 'max' else min(vas)]
    else:
        exact = [sum(a * b for a, b in zip(vas, vbs))]
    want = [M.ROUND(v * M.pow2(fd[2]), rounding) for v in exact]
    sig = 'register-reduce/%s/%s' % (op, 'wide' if fd[1] >= 64 else 'core')

    def do():
        a = F(np.array(kas, dtype=np.int64), fa[0], fa[1], fa[2], raw=True)
        b = F(np.array(kbs, dtype=np.int64), fb[0], fb[1], fb[2], raw=True)
        mkreg = lambda: F(None, fd[0], fd[1], fd[2], overflow='wrap', rounding=rounding)
        if op == 'dot':
            return fxpmath.dot(a, b, out=mkreg()), a.dot(b, out_like=mkreg()), np.dot(a, b, out=mkreg()), mkreg()(a.dot(b))
        fn = getattr(fxpmath, {'max': 'fxp_max', 'min': 'fxp_min'}.get(op, op))
        # the operand itself is the wrap register: 'same' sizing keeps its format and its wrap configuration
        aw = F(np.array(kas, dtype=np.int64), fa[0], fa[1], fa[2], raw=True, overflow='wrap', op_sizing='same')
        return fn(a, out=mkreg()), getattr(a, op)(out_like=mkreg()), getattr(np, op)(a, out=mkreg()), mkreg()(fn(a)), getattr(aw, op)()
    ok, res = ctx.guard(case, do, sig_prefix=sig + '/')
    if not ok:
        return
    if len(res) == 5:
        z = res[4]
        try:
            ks = C.flat(C.codes(z))
        except ValueError as e:
            ctx.fail('%s/same-sizing/non-integer-code' % sig, case, {'error': str(e)})
            return
        want_same = [M.ROUND(v * M.pow2(fa[2]), 'trunc') for v in exact]
        if C.fmt_of(z) != (bool(fa[0]), fa[1], fa[2]) or len(ks) != len(want_same) or not all(wrap_ok(k, r, fa) for k, r in zip(ks, want_same)):
            ctx.fail('%s/same-sizing/congruence' % sig, case, {'rounded': [str(r) for r in want_same], 'codes': [str(k) for k in ks], 'fmt': C.fmt_of(z)})
            return
    for name, z in zip(('out', 'method-out_like', 'numpy-out', 'store-call'), res):
        try:
            ks = C.flat(C.codes(z))
        except ValueError as e:
            ctx.fail('%s/%s/non-integer-code' % (sig, name), case, {'error': str(e)})
            return
        if C.fmt_of(z) != (bool(fd[0]), fd[1], fd[2]) or len(ks) != len(want) or not all(wrap_ok(k, r, fd) for k, r in zip(ks, want)):
            ctx.fail('%s/%s/congruence' % (sig, name), case, {'rounded': [str(r) for r in want], 'codes': [str(k) for k in ks], 'fmt': C.fmt_of(z)})
            return


def check_resign(ctx, case):
    """A wrap register re-interpreted in place (only the signedness, or the word, changes): same bits modulo 2^n_word."""
    fmt = tuple(case['fmt'])
    s, w, f = fmt
    ks = [int(k) for k in case['codes']]
    w2 = int(case.get('w2', w))
    how = case['how']
    F = C.Fxp()
    ctx.ev(len(ks))
    ctx.cls('resign')
    sig = 'resign/%s/%s' % (how, 'wide' if w >= 64 else 'core')

    def do():
        x = F(ks[0] if len(ks) == 1 else np.array(ks, dtype=object if w > 62 else np.int64), s, w, f, raw=True, overflow='wrap')
        if how == 'sizes':
            x.resize(not s, w2, f)
        elif how == 'signed-only':
            x.resize(signed=not s)
        else:
            x.resize(dtype=M.dtype_str(not s, w2, f))
        return x
    ok, x = ctx.guard(case, do, sig_prefix=sig + '/')
    if not ok:
        return
    try:
        got = C.flat(C.codes(x))
    except ValueError as e:
        ctx.fail(sig + '/non-integer-code', case, {'error': str(e)})
        return
    if C.fmt_of(x) != (not s, w2 if how != 'signed-only' else w, f):
        ctx.fail(sig + '/format', case, {'got': C.fmt_of(x)})
        return
    wn = C.fmt_of(x)[1]
    for k, g in zip(ks, got):
        if not wrap_ok(g, k, (not s, wn, f)):
            ctx.fail('%s/congruence/%s' % (sig, 'neg' if k < 0 else 'upper-half'), case, {'code': str(k), 'stored': str(g), 'fmt': C.fmt_of(x)})
            return


CHECKS = {'grid': check_grid, 'wrap': check_wrap, 'wide': check_wide, 'register': check_register, 'register-mixed': check_register_mixed, 'register-reduce': check_register_reduce, 'resign': check_resign}


def replay(ctx, case):
    CHECKS[case['check']](ctx, case)


def task_grid(ctx, fmts):
    for fmt in fmts:
        s, w, f = fmt
        lo, hi = M.rng(s, w)
        span = 1 << w
        for rounding in C.ROUNDINGS:
            for route in ('ctor', 'setitem'):
                check_grid(ctx, {'check': 'grid', 'fmt': list(fmt), 'rounding': rounding, 'route': route})
                ctx.nontrivial_enum(8 * span)
                ctx.cls('wrapped', 8 * span)
        ctx.sample({'check': 'grid', 'fmt': list(fmt), 'points': 12 * span + 1}, True)


@st.composite
def st_wrap_case(draw):
    fmt = draw(C.st_fmt())
    s, w, f = fmt
    lim = max(min(62, 53 + f) if f < 0 else 62, 2)
    how = draw(st.sampled_from(['float', 'array', 'int', 'float', 'fxp']))
    n = draw(st.integers(1, 5)) if how == 'array' else 1
    m = 1 << w
    x4s = []
    for _ in range(n):
        if draw(st.booleans()):
            base = draw(st.integers(-6, 6)) * m + draw(st.integers(-3, 3))
            x4 = 4 * base + draw(st.integers(-3, 3))
            cap = (1 << lim) * 4 - 1
            x4 = max(min(x4, cap), -cap)
        else:
            x4 = draw(C.st_x4(fmt, limit_bits=lim))
        if how == 'fxp' and draw(st.booleans()):
            # within one LSB of either end of the range: the rounding decides whether the code leaves the word
            lo_, hi_ = M.rng(s, w)
            x4 = draw(st.sampled_from([4 * hi_ + q for q in (1, 2, 3)] + [4 * lo_ - q for q in (1, 2, 3)]))
        x4 = C.clamp_sig_bits(x4, 53)
        if how == 'int':
            # integer carrier: v must be an integer
            v = C.v_from_x4(x4, f)
            vi = v.numerator // v.denominator
            x4 = int(M.scaled(vi, f) * 4)
        x4s.append(x4)
    return {'check': 'wrap', 'fmt': list(fmt), 'rounding': draw(st.sampled_from(C.ROUNDINGS)), 'how': how,
            'route': draw(st.sampled_from(['ctor', 'call', 'set_val', 'setitem'])), 'x4s': x4s, 'j': draw(st.integers(-3, 3))}


def body_wrap(ctx, case):
    fmt = tuple(case['fmt'])
    lo, hi = M.rng(fmt[0], fmt[1])
    nt = False
    for x4 in case['x4s']:
        r = M.ROUND(Fraction(x4, 4), case['rounding'])
        if r > hi or r < lo:
            ctx.cls('wrapped')
            nt = True
            ctx.nontrivial(('wrap', fmt, case['rounding'], case['how'], case['route'], x4))
    ctx.sample(case, nt)
    check_wrap(ctx, case)


WIDE_W = [64, 65, 66, 72, 96, 100, 127, 128, 129, 200, 256]


@st.composite
def st_wide_case(draw):
    w = draw(st.one_of(st.sampled_from(WIDE_W), st.integers(64, 256)))
    s = draw(st.booleans())
    mode = draw(st.sampled_from(['raw', 'value']))
    f = draw(st.sampled_from([0, 1, w // 2, w - 1, w])) if mode == 'raw' else draw(st.sampled_from([0, 0, 1, 3, w // 2, -1, -4, -8]))
    lo, hi = M.rng(s, w)
    m = 1 << w
    kind = draw(st.sampled_from(['edge', 'mod', 'rand', 'm64', 'inrange']))
    if kind == 'edge':
        r = draw(st.sampled_from([lo, hi])) + draw(st.integers(-3, 3))
    elif kind == 'mod':
        r = draw(st.integers(-5, 5)) * m + draw(st.sampled_from([lo, hi, 0, -1, 1, hi + 1, lo - 1]))
    elif kind == 'rand':
        r = draw(st.integers(-(1 << (4 * w)), 1 << (4 * w)))
    elif kind == 'm64':
        r = draw(st.sampled_from([1 << 63, 1 << 64, (1 << 63) - 1, (1 << 64) - 1, -(1 << 63), -(1 << 63) - 1, -(1 << 64)])) + draw(st.integers(-2, 2))
    else:
        r = draw(st.integers(lo, hi))
    # value mode: integer value v, scaled code v*2^f (negative n_frac: low bits that decide the rounding are added)
    k = r if mode == 'raw' else r >> f if f >= 0 else (r << -f) + draw(st.sampled_from([0, 0, 1, (1 << -f) // 2, (1 << -f) - 1]))
    return {'check': 'wide', 'fmt': [s, w, f], 'k': k, 'mode': mode, 'route': draw(st.sampled_from(['ctor', 'set_val', 'call'])),
            'rounding': draw(st.sampled_from(C.ROUNDINGS))}


def body_wide(ctx, case):
    fmt = tuple(case['fmt'])
    lo, hi = M.rng(fmt[0], fmt[1])
    k = int(case['k'])
    r = k if case['mode'] == 'raw' else k << fmt[2] if fmt[2] >= 0 else k >> -fmt[2]
    ctx.cls('wide')
    if fmt[2] < 0 and case['mode'] != 'raw':
        ctx.cls('wide:nfrac<0')
    if r > hi or r < lo:
        ctx.cls('wrapped')
        ctx.nontrivial(('wide', fmt, case['mode'], case['route'], k))
    ctx.sample(case, r > hi or r < lo)
    check_wide(ctx, case)


@st.composite
def st_register_case(draw):
    wide = draw(st.booleans())
    w = draw(st.sampled_from(WIDE_W)) if wide else draw(C.st_word(52, 2))
    s = draw(st.booleans())
    op = draw(st.sampled_from(['add', 'sub', 'mul']))
    f = 0 if op == 'mul' else draw(st.sampled_from([0, 1, w // 2]))
    fmt = (s, w, f)
    return {'check': 'register', 'fmt': [s, w, f], 'op': op, 'ka': draw(C.st_code(fmt)), 'kb': draw(C.st_code(fmt))}


def body_register(ctx, case):
    fmt = tuple(case['fmt'])
    lo, hi = M.rng(fmt[0], fmt[1])
    ka, kb = int(case['ka']), int(case['kb'])
    r = ka * kb if case['op'] == 'mul' else ka + kb if case['op'] == 'add' else ka - kb
    ctx.cls('register')
    if r > hi or r < lo:
        ctx.nontrivial(('reg', fmt, case['op'], ka, kb))
    ctx.sample(case, r > hi or r < lo)
    check_register(ctx, case)


@st.composite
def st_register_mixed_case(draw):
    fa = draw(C.st_fmt(max_w=52, min_w=2, f_lo=0, f_hi_extra=0))
    fb = draw(C.st_fmt(max_w=52, min_w=2, f_lo=0, f_hi_extra=0))
    op = draw(st.sampled_from(['add', 'sub', 'mul', 'mul']))
    signed = fa[0] or fb[0]
    exact_f = fa[2] + fb[2] if op == 'mul' else max(fa[2], fb[2])
    wide = draw(st.integers(0, 3)) == 0
    wd = draw(st.sampled_from(WIDE_W)) if wide else draw(C.st_word(52, 2))
    # the register usually keeps fewer fraction bits than the exact result (a Qm.n multiplier keeps n of the 2n bits)
    fd = draw(st.one_of(st.sampled_from(sorted({max(exact_f // 2, 0), max(exact_f - 1, 0), fa[2], min(fa[2], fb[2]), 0})), st.integers(0, max(exact_f, 1))))
    fd = min(fd, wd + 8)
    sd = signed or draw(st.booleans())       # an unsigned target cannot take a signed result (rejected by the library)
    return {'check': 'register-mixed', 'fa': list(fa), 'fb': list(fb), 'fd': [sd, wd, fd], 'op': op, 'rounding': draw(st.sampled_from(C.ROUNDINGS)),
            'ka': draw(C.st_code(fa)), 'kb': draw(C.st_code(fb))}


def body_register_mixed(ctx, case):
    fa, fb, fd = case['fa'], case['fb'], case['fd']
    bits = fa[1] + fb[1] if case['op'] == 'mul' else max(fa[1] - fa[2], fb[1] - fb[2]) + max(fa[2], fb[2]) + 1
    exact_f = fa[2] + fb[2] if case['op'] == 'mul' else max(fa[2], fb[2])
    ctx.cls('register-mixed')
    nt = bits > 53 and fd[2] < exact_f
    if nt:
        ctx.cls('register-mixed:exact>53bits-coarser-target')
        ctx.nontrivial(('regmix', repr(sorted((k, repr(v)) for k, v in case.items()))))
    ctx.sample(case, nt)
    check_register_mixed(ctx, case)


@st.composite
def st_register_reduce_case(draw):
    fa = draw(C.st_fmt(max_w=52, min_w=2, f_lo=0, f_hi_extra=0))
    fb = draw(C.st_fmt(max_w=52, min_w=2, f_lo=0, f_hi_extra=0))
    op = draw(st.sampled_from(['sum', 'cumsum', 'dot', 'dot', 'max', 'min']))
    if op != 'dot':
        fb = fa
    n = draw(st.integers(1, 5))
    exact_f = fa[2] + fb[2] if op == 'dot' else fa[2]
    wide = draw(st.integers(0, 2)) == 0
    wd = draw(st.sampled_from(WIDE_W)) if wide else draw(C.st_word(52, 2))
    fd = min(draw(st.one_of(st.sampled_from(sorted({max(exact_f // 2, 0), fa[2], 0, exact_f})), st.integers(0, max(exact_f + 8, 1)))), wd + 8)
    if wide and draw(st.booleans()):
        fd = draw(st.integers(0, min(wd, exact_f + 70)))        # a wide accumulator with many more fraction bits than the operands
    sd = fa[0] or fb[0] or draw(st.booleans())
    return {'check': 'register-reduce', 'fa': list(fa), 'fb': list(fb), 'fd': [sd, wd, fd], 'op': op, 'rounding': draw(st.sampled_from(C.ROUNDINGS)),
            'ka': [draw(C.st_code(fa)) for _ in range(n)], 'kb': [draw(C.st_code(fb)) for _ in range(n)]}


def body_register_reduce(ctx, case):
    fa, fb, fd = case['fa'], case['fb'], case['fd']
    bits = (fa[1] + fb[1] if case['op'] == 'dot' else fa[1]) + 3
    exact_f = fa[2] + fb[2] if case['op'] == 'dot' else fa[2]
    ctx.cls('register-reduce')
    nt = bits > 53 or bits + max(fd[2] - exact_f, 0) >= 63
    if nt:
        ctx.cls('register-reduce:beyond-53-or-63-bits')
        ctx.nontrivial(('regred', repr(sorted((k, repr(v)) for k, v in case.items()))))
    ctx.sample(case, nt)
    check_register_reduce(ctx, case)


@st.composite
def st_resign_case(draw):
    wide = draw(st.integers(0, 3)) == 0
    w = draw(st.sampled_from(WIDE_W)) if wide else draw(C.st_word(52, 1))
    s = draw(st.booleans())
    f = draw(st.sampled_from([0, 1, w // 2, w]))
    fmt = (s, w, f)
    n = draw(st.sampled_from([1, 1, 3]))
    how = draw(st.sampled_from(['sizes', 'signed-only', 'dtype']))
    w2 = w if how == 'signed-only' or draw(st.booleans()) else max(1, min(w + draw(st.integers(-3, 3)), 256))
    if not wide:
        w2 = min(w2, 52)
    return {'check': 'resign', 'fmt': [s, w, f], 'codes': [draw(C.st_code(fmt)) for _ in range(n)], 'how': how, 'w2': w2}


def body_resign(ctx, case):
    fmt = tuple(case['fmt'])
    lo, hi = M.rng(not fmt[0], case['w2'])
    nt = any(not lo <= int(k) <= hi for k in case['codes'])
    if nt:
        ctx.nontrivial(('resign', repr(sorted((k, repr(v)) for k, v in case.items()))))
    ctx.sample(case, nt)
    check_resign(ctx, case)


def task_hyp(ctx, which, n):
    stg, body = {'wrap': (st_wrap_case, body_wrap), 'wide': (st_wide_case, body_wide), 'register': (st_register_case, body_register),
                 'register-mixed': (st_register_mixed_case, body_register_mixed), 'register-reduce': (st_register_reduce_case, body_register_reduce), 'resign': (st_resign_case, body_resign)}[which]
    run_given(ctx, stg(), body, n, ctx.task_seed)


def tasks(tier, scale=1.0):
    out = []
    fmts = list(small_formats(6 if tier == 'quick' else 7))
    for i in range(16):
        out.append(('grid-%d' % i, 'task_grid', {'fmts': fmts[i::16]}))
    nh = int((2500 if tier == 'quick' else 40000) * scale)
    for i in range(10):
        out.append(('hyp-wrap-%d' % i, 'task_hyp', {'which': 'wrap', 'n': nh}))
    for i in range(4):
        out.append(('hyp-wide-%d' % i, 'task_hyp', {'which': 'wide', 'n': nh}))
    for i in range(4):
        out.append(('hyp-register-%d' % i, 'task_hyp', {'which': 'register', 'n': nh // 2}))
    for i in range(4):
        out.append(('hyp-register-mixed-%d' % i, 'task_hyp', {'which': 'register-mixed', 'n': nh // 2}))
    for i in range(2):
        out.append(('hyp-register-reduce-%d' % i, 'task_hyp', {'which': 'register-reduce', 'n': nh // 2}))
    for i in range(2):
        out.append(('hyp-resign-%d' % i, 'task_hyp', {'which': 'resign', 'n': nh}))
    return out
