#!/venv/bin/python
"""Regenerate MANIFEST.json from the property modules that exist and tools/manifest_text.py."""
import json, os, sys
HERE = os.path.dirname(os.path.dirname(os.path.abspath(__file__)))
sys.path.insert(0, HERE)
from tools.manifest_text import TEXT, NOT_APPLICABLE   # noqa: E402

props = [json.loads(l) for l in open(os.path.join(HERE, 'properties.jsonl'))]
checks, na = [], []
for p in props:
    pid = p['id']
    have = os.path.exists(os.path.join(HERE, 'fxverif', 'props', pid.lower() + '.py'))
    if pid in NOT_APPLICABLE or not have or pid not in TEXT:
        na.append({'property_id': pid, 'reason': NOT_APPLICABLE.get(pid, 'check not built yet (work in progress); see DESIGN.md section 4 for the plan')})
        continue
    t = TEXT[pid]
    checks.append({
        'property_id': pid,
        'quick_cmd': './check %s --tier quick' % pid,
        'thorough_cmd': './check %s --tier thorough' % pid,
        'evidence_file': 'evidence/%s.json' % pid,
        'replay_cmd_template': './check %s --replay {path}' % pid,
        'engine': 'fxverif',
        'level_claimed': {'category': 'exploration', 'text': t['level'], 'design_ref': 'DESIGN.md section 4, ' + pid},
        'level_note': t['note'],
        'technique': t['technique'],
    })
m = {
    'version': 1,
    'setup_cmd': 'sh ./setup.sh',
    'hooks': {
        'guard': 'FXPMATH_VERIF',
        'enable': 'no source hooks are needed: checks import /repo/fxpmath from the working tree (pure Python, re-imported in a fresh process on every run) and observe only public attributes; the guard variable is reserved and unused',
        'baseline_off_cmd': 'sh ./tools/repo_tests.sh',
        'source_commits': [],
        'add_only': True,
    },
    'engines': [{'name': 'fxverif', 'path': 'fxverif/', 'serves_properties': [c['property_id'] for c in checks],
                 'kind_free_text': 'property-based testing: Hypothesis strategies and rule-based state machines plus exhaustive small-format enumeration, compared with an exact int/Fraction reference model; 16-way process sharding; JSON replay files'}],
    'checks': checks,
    'not_applicable': na,
    'notes': 'Every check: exit 0 held / 1 VIOLATION (one line per distinct input-class signature) / 2 harness error or inconclusive. VERIF_SEED seeds every Hypothesis run. FXP_REPO selects the tree (default /repo). known_findings.json lists recorded genuine defects and fixed ones.',
}
json.dump(m, open(os.path.join(HERE, 'MANIFEST.json'), 'w'), indent=1)
print('claimed:', [c['property_id'] for c in checks])
print('not claimed:', [n['property_id'] for n in na])
