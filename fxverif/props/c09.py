"""C09 - division family: quotient within one LSB, exact floor-division and modulo."""
from fractions import Fraction
import itertools
import numpy as np
from hypothesis import strategies as st

from .. import model as M
from .. import common as C
from ..runner import run_given

PROPERTY = 'C09'
RULE = ("x/y, x//y, x%y of real operands vs exact Fraction arithmetic: '/' has no overflow/underflow flag, is exact when the quotient is representable in the result format and otherwise "
        "|q_hat-q|<LSB; '//' == floor(x/y) exactly; '%' == x-y*floor(x/y) exactly; (x//y)*y + x%y == x computed through the library; result formats follow the documented rules; raw == repr on // and %. "
        "Generated: exhaustive - every pair of formats with n_word<=4 (thorough <=5), n_frac -1..n_word+1, whose optimal result word is >=1, every code pair with divisor!=0, roundings trunc/floor/around on the dividend's config; "
        "Hypothesis - random format pairs with result word <=53 (operand words up to 62 bits; repr method only for operand words <=53 and result words <=40: it computes in float64) biased to the extreme quotient (most negative / +-1 LSB) and negative inexact quotients. "
        "Constants: x op c and c op x (and the in-place forms) with a python / numpy number c representable in x's format (n_word<=24): converted like x and delivered in x's format, // and % exact when representable there, / exact or within one LSB. "
        "Non-trivial = quotient not representable in the result format, or negative; distinct = distinct (formats, codes, op, method, rounding).")
ASSUMPTIONS = ['operands created from raw codes; divisor != 0', 'format pairs whose documented optimal word is < 1 are rejected by the library (ValueError) and are outside the generator']
EXHAUSTIVE = False    # the whole quantifier is not enumerated; complete sub-domains are listed in EXHAUSTIVE_SUBDOMAINS
EXHAUSTIVE_SUBDOMAINS = {'quick': ['all format pairs n_word<=4 x all code pairs (divisor!=0) x {/,//,%} x 3 roundings, raw; repr for n_word<=3'],
                         'thorough': ['all format pairs n_word<=5 x all code pairs x 3 ops x 3 roundings x raw; repr for n_word<=4']}
REQUIRED_CLASSES = {'operand>53': 300, 'inexact-quotient': 1000, 'negative-quotient': 1000, 'extreme-quotient': 50, 'const:left': 1000, 'const:right': 1000}
ROUNDS = ('trunc', 'floor', 'around')


def res_fmt(op, fx, fy):
    return {'truediv': M.fmt_truediv, 'floordiv': M.fmt_floordiv, 'mod': M.fmt_mod}[op](fx, fy)


def interm_bits(op, fx, fy):
    """Width of the widest aligned integer the documented raw computation needs (from the formats only)."""
    fz = res_fmt(op, fx, fy)[2]
    if op == 'truediv':
        return fx[1] + max(fz - fx[2] + fy[2], 0)
    if op == 'mod':
        return max(fx[1] + max(fz - fx[2], 0), fy[1] + max(fz - fy[2], 0))
    return max(fx[1] + max(-fx[2], 0), fy[1] + max(-fy[2], 0))


def identity_ok(fx, fy):
    """(x//y)*y + x%y can be evaluated exactly by the library: every intermediate format is 1..53 bits."""
    ffd, fmd = M.fmt_floordiv(fx, fy), M.fmt_mod(fx, fy)
    if ffd[1] < 1 or fmd[1] < 1:
        return False
    fpr = M.fmt_mul(ffd, fy)
    fsm = M.fmt_add(fpr, fmd)
    return max(ffd[1], fmd[1], fpr[1], fsm[1]) <= 53 and max(interm_bits('mod', fx, fy), interm_bits('floordiv', fx, fy)) < 63 \
        and fpr[1] + max(fsm[2] - fpr[2], 0) < 63 and fmd[1] + max(fsm[2] - fmd[2], 0) < 63


def floor_frac(q):
    return q.numerator // q.denominator


def check_div(ctx, case):
    fx, fy = tuple(case['fx']), tuple(case['fy'])
    op, method, rounding = case['op'], case.get('method', 'raw'), case.get('rounding', 'trunc')
    kxs, kys = [int(k) for k in case['kx']], [int(k) for k in case['ky'] if int(k) != 0]
    F = C.Fxp()
    import fxpmath
    fz = res_fmt(op, fx, fy)
    if fz[1] < 1:
        ctx.cls('skipped:non-positive-word')
        return
    lo, hi = M.rng(fz[0], fz[1])
    ib = interm_bits(op, fx, fy)
    # operands whose aligned intermediate needs >= 63 bits form their own input class (raw kernels compute in int64)
    sig = ('div-wide-intermediate/%s/%s' if ib >= 63 and method == 'raw' else 'div/%s/%s') % (op, method)
    if ib >= 63:
        ctx.cls('wide-intermediate')
    scalar = case.get('scalar', False)
    do_identity = bool(case.get('identity')) and identity_ok(fx, fy)
    if not kys:
        return

    def do():
        kw = dict(raw=True, rounding=rounding, op_method=method)
        if scalar:
            x = F(kxs[0], fx[0], fx[1], fx[2], **kw)
            y = F(kys[0], fy[0], fy[1], fy[2], raw=True)
        else:
            x = F(np.array(kxs, dtype=np.int64).reshape(-1, 1), fx[0], fx[1], fx[2], **kw)
            y = F(np.array(kys, dtype=np.int64), fy[0], fy[1], fy[2], raw=True)
        if case.get('route', 'operator') == 'operator':
            z = x / y if op == 'truediv' else x // y if op == 'floordiv' else x % y
        else:
            z = getattr(fxpmath, op)(x, y, method=method)
        ident = None
        if do_identity:
            ident = (x // y) * y + (x % y)
        return x, y, z, ident
    ok, res = ctx.guard(case, do, sig_prefix=sig + '/')
    ctx.ev(len(kxs) * len(kys) if not scalar else 1)
    if not ok:
        return
    x, y, z, ident = res
    if C.fmt_of(z) != (bool(fz[0]), fz[1], fz[2]):
        ctx.fail(sig + '/format', case, {'expected': fz, 'got': C.fmt_of(z)})
        return
    try:
        got = C.codes(z)
    except ValueError as e:
        ctx.fail(sig + '/non-integer-code', case, {'error': str(e)})
        return
    if scalar:
        got = [[got]]
        kxs, kys = kxs[:1], kys[:1]
    o, u, _ = C.flags(z)
    expect_flag = False
    for i, kx in enumerate(kxs):
        for j, ky in enumerate(kys):
            vx, vy = M.value_of(kx, fx[2]), M.value_of(ky, fy[2])
            q = vx / vy
            g = got[i][j]
            one = dict(case, kx=[kx], ky=[ky], scalar=True)
            if not lo <= g <= hi:
                ctx.fail(sig + '/code-out-of-range', one, {'code': g, 'fmt': fz})
                return
            gv = M.value_of(g, fz[2])
            if op == 'truediv':
                qs = M.scaled(q, fz[2])
                if qs.denominator == 1:
                    if qs < lo or qs > hi:
                        ctx.fail(sig + '/model-growth-rule-too-small', one, {'q': str(q), 'fmt': fz})
                        return
                    if g != qs:
                        ctx.fail(sig + '/representable-not-exact/%s' % ('neg' if q < 0 else 'pos'), one, {'q': str(q), 'got': str(gv)})
                        return
                else:
                    if not abs(Fraction(g) - qs) < 1:
                        ctx.fail(sig + '/error>=LSB/%s' % ('neg' if q < 0 else 'pos'), one, {'q': str(q), 'got': str(gv), 'fmt': fz})
                        return
            elif op == 'floordiv':
                want = floor_frac(q)
                if gv != want:
                    ctx.fail(sig + '/value/%s' % ('neg' if q < 0 else 'pos'), one, {'q': str(q), 'expected': want, 'got': str(gv), 'fmt': fz})
                    return
            else:
                want = vx - vy * floor_frac(q)
                if gv != want:
                    ctx.fail(sig + '/value/%s' % ('neg' if q < 0 else 'pos'), one, {'x': str(vx), 'y': str(vy), 'expected': str(want), 'got': str(gv), 'fmt': fz})
                    return
    if o or u:
        ctx.fail(sig + '/flags', case, {'flags': C.flags(z)})
        return
    if ident is not None:
        iv = np.asarray(ident.get_val(), dtype=object)
        for i, kx in enumerate(kxs):
            for j, ky in enumerate(kys):
                e = iv[i][j] if not scalar else iv.item()
                if C.frac_of(e) != M.value_of(kx, fx[2]):
                    ctx.fail('div/identity', dict(case, kx=[kx], ky=[ky], scalar=True), {'x': str(M.value_of(kx, fx[2])), 'got': str(e)})
                    return


def _carrier(v, kind):
    """The exact constant v (a Fraction that is an exact double) in a python / numpy carrier."""
    if kind == 'int' and v.denominator == 1:
        return int(v)
    if kind == 'np.int64' and v.denominator == 1:
        return np.int64(int(v))
    if kind == 'np.float64':
        return np.float64(float(v))
    if kind == 'np.float32' and Fraction(float(np.float32(float(v)))) == v:
        return np.float32(float(v))
    if kind == '0d':
        return np.array(float(v))
    return float(v)


def check_div_const(ctx, case):
    """x op c and c op x (op in / // %) with a python / numpy constant c that is representable in x's format: the constant is first
    converted like x (op_input_size 'same') and the result is delivered in x's format (const_op_sizing 'same'), so this is the
    division family on two operands of one format with an imposed result format: // and % exact when representable in it,
    / exact when representable and otherwise within one LSB; the in-place forms are the same operations."""
    fx = tuple(case['fx'])
    s, w, f = fx
    op, side, method = case['op'], case['side'], case['method']
    kx, kc = int(case['kx']), int(case['kc'])
    F = C.Fxp()
    ctx.ev()
    lo, hi = M.rng(s, w)
    vx, vc = M.value_of(kx, f), M.value_of(kc, f)
    num, den = (vx, vc) if side == 'right' else (vc, vx)
    if den == 0 or not M.is_double(vc) or not (lo <= kx <= hi and lo <= kc <= hi):
        return
    ctx.cls('const')
    ctx.cls('const:' + side)
    sig = 'div-const/%s/%s/%s/%s' % (op, side, method, case['carrier'] if case['carrier'].startswith('np') or case['carrier'] == '0d' else 'python')
    c = _carrier(vc, case['carrier'])

    def do():
        x = F(kx, s, w, f, raw=True, rounding=case['rounding'], op_method=method)
        if side == 'right':
            if case.get('inplace'):
                z = x
                if op == 'truediv':
                    z /= c
                elif op == 'floordiv':
                    z //= c
                else:
                    z %= c
                return z
            return x / c if op == 'truediv' else x // c if op == 'floordiv' else x % c
        return c / x if op == 'truediv' else c // x if op == 'floordiv' else c % x
    ok, z = ctx.guard(case, do, sig_prefix=sig + '/')
    if not ok:
        return
    if not isinstance(z, F):
        ctx.fail(sig + '/not-fxp', case, {'type': str(type(z))})
        return
    if C.fmt_of(z) != (bool(s), w, f):
        ctx.fail(sig + '/format', case, {'expected': fx, 'got': C.fmt_of(z)})
        return
    try:
        g = C.codes(z)
    except ValueError as e:
        ctx.fail(sig + '/non-integer-code', case, {'error': str(e)})
        return
    q = num / den
    fl = floor_frac(q)
    exact = q if op == 'truediv' else Fraction(fl) if op == 'floordiv' else num - den * fl
    es = M.scaled(exact, f)
    if not lo <= g <= hi:
        ctx.fail(sig + '/code-out-of-range', case, {'code': g})
        return
    if es < lo or es > hi:
        ctx.cls('const:result-out-of-range')
        return
    if es.denominator == 1:
        ctx.nontrivial(('div-const', repr(sorted(case.items()))))
        if g != es:
            ctx.fail(sig + '/representable-not-exact', case, {'exact': str(exact), 'expected_code': int(es), 'got_code': g})
            return
        o, u, _ = C.flags(z)
        if o or u:
            ctx.fail(sig + '/flags', case, {'flags': C.flags(z)})
    elif op == 'truediv':
        ctx.nontrivial(('div-const', repr(sorted(case.items()))))
        if not abs(Fraction(g) - es) < 1:
            ctx.fail(sig + '/error>=LSB', case, {'exact': str(exact), 'got_code': g})


CHECKS = {'div': check_div, 'div-const': check_div_const}


def replay(ctx, case):
    CHECKS[case['check']](ctx, case)


def small_fmts(max_w):
    return [(s, w, f) for w in range(1, max_w + 1) for s in (True, False) for f in range(-1, w + 2)]


def all_codes(fmt):
    lo, hi = M.rng(fmt[0], fmt[1])
    return list(range(lo, hi + 1))


def count_classes(ctx, fx, fy, kxs, kys, op):
    fz = res_fmt(op, fx, fy)
    n_inexact = n_neg = 0
    for kx in kxs:
        for ky in kys:
            if ky == 0:
                continue
            q = M.value_of(kx, fx[2]) / M.value_of(ky, fy[2])
            if op == 'truediv' and M.scaled(q, fz[2]).denominator != 1:
                n_inexact += 1
            elif op != 'truediv' and q.denominator != 1:
                n_inexact += 1
            if q < 0:
                n_neg += 1
    return n_inexact, n_neg


def task_exh(ctx, pairs, methods):
    for fx, fy in pairs:
        kx, ky = all_codes(fx), all_codes(fy)
        for op in ('truediv', 'floordiv', 'mod'):
            if res_fmt(op, fx, fy)[1] < 1:
                ctx.cls('skipped:non-positive-word')
                continue
            ni, nn = count_classes(ctx, fx, fy, kx, ky, op)
            for method in methods:
                for rounding in ROUNDS:
                    case = {'check': 'div', 'fx': list(fx), 'fy': list(fy), 'op': op, 'method': method, 'rounding': rounding,
                            'kx': kx, 'ky': ky, 'identity': op == 'mod' and rounding == 'trunc'}
                    check_div(ctx, case)
                    ctx.cls('inexact-quotient', ni)
                    ctx.cls('negative-quotient', nn)
                    ctx.nontrivial_enum(max(ni, nn))
            ctx.cls('extreme-quotient')
        ctx.sample({'check': 'div-exhaustive', 'fx': list(fx), 'fy': list(fy)}, True)


@st.composite
def st_case(draw):
    # the statement bounds the RESULT word (<=53), not the operand words: a third of the cases have operand words up to 62 bits
    wide = draw(st.integers(0, 2)) == 0
    for _ in range(30):
        fx = draw(C.st_fmt(max_w=62 if wide else 40, min_w=41 if wide else 1, f_lo=-1, f_hi_extra=1))
        fy = draw(C.st_fmt(max_w=40, f_lo=-1, f_hi_extra=1))
        if wide and draw(st.booleans()):
            fy = (fy[0], draw(st.integers(1, 6)), fy[2] % 4)
        op = draw(st.sampled_from(['truediv', 'floordiv', 'mod']))
        fz = res_fmt(op, fx, fy)
        if 1 <= fz[1] <= 53:
            break
    else:
        fx, fy, op = (True, 8, 3), (True, 6, 2), 'truediv'
    lox, hix = M.rng(fx[0], fx[1])
    loy, hiy = M.rng(fy[0], fy[1])
    kind = draw(st.sampled_from(['extreme', 'rand', 'rand']))
    if kind == 'extreme':
        kx = [draw(st.sampled_from([lox, hix, lox + 1]))]
        ky = [draw(st.sampled_from([c for c in (1, -1, loy, hiy, 2, -2) if loy <= c <= hiy and c != 0]))]
    else:
        kx = [draw(C.st_code(fx))]
        ky = [draw(C.st_code(fy).filter(lambda k: k != 0))]
    return {'check': 'div', 'fx': list(fx), 'fy': list(fy), 'op': op, 'method': draw(st.sampled_from(['raw', 'raw', 'repr'])) if op != 'truediv' else 'raw',
            'rounding': draw(st.sampled_from(ROUNDS)), 'kx': kx, 'ky': ky, 'scalar': draw(st.booleans()),
            'route': draw(st.sampled_from(['operator', 'function'])), 'identity': draw(st.booleans()), 'kind': kind}


def body(ctx, case):
    fx, fy = tuple(case['fx']), tuple(case['fy'])
    ni, nn = count_classes(ctx, fx, fy, case['kx'], case['ky'], case['op'])
    if ni:
        ctx.cls('inexact-quotient')
    if nn:
        ctx.cls('negative-quotient')
    if case['kind'] == 'extreme':
        ctx.cls('extreme-quotient')
    if max(fx[1], fy[1]) > 53:
        ctx.cls('operand>53')
    if ni or nn:
        ctx.nontrivial(('div', repr(sorted(case.items()))))
    ctx.sample(case, bool(ni or nn))
    # repr method computes in float64: only sound when the operand values and the quotient are exact doubles of moderate size
    if case['method'] == 'repr':
        fz = res_fmt(case['op'], fx, fy)
        if fz[1] > 40 or max(fx[1], fy[1]) > 53:
            case = dict(case, method='raw')
    check_div(ctx, case)


@st.composite
def st_const_case(draw):
    fx = draw(C.st_fmt(max_w=24, min_w=2, f_lo=-1, f_hi_extra=1))
    lo, hi = M.rng(fx[0], fx[1])
    code = st.one_of(st.sampled_from([lo, hi, 1, -1 if fx[0] else 1, 2, 3]), st.integers(lo, hi)).map(lambda k: min(max(k, lo), hi))
    return {'check': 'div-const', 'fx': list(fx), 'op': draw(st.sampled_from(['truediv', 'floordiv', 'mod'])), 'side': draw(st.sampled_from(['right', 'left'])),
            'method': draw(st.sampled_from(['raw', 'raw', 'repr'])), 'rounding': draw(st.sampled_from(ROUNDS)), 'kx': draw(code), 'kc': draw(code),
            'carrier': draw(st.sampled_from(['float', 'float', 'int', 'np.float64', 'np.int64', 'np.float32', '0d'])), 'inplace': draw(st.booleans())}


def body_const(ctx, case):
    ctx.sample(case, True)
    check_div_const(ctx, case)


def task_hyp_const(ctx, n):
    run_given(ctx, st_const_case(), body_const, n, ctx.task_seed)


def task_hyp(ctx, n):
    run_given(ctx, st_case(), body, n, ctx.task_seed)


def tasks(tier, scale=1.0):
    out = []
    wmax = 4 if tier == 'quick' else 5
    fl = small_fmts(wmax)
    pairs = list(itertools.product(fl, fl))
    n = 24 if tier == 'quick' else 64
    for i in range(n):
        out.append(('exh-raw-%d' % i, 'task_exh', {'pairs': pairs[i::n], 'methods': ('raw',)}))
    fl2 = small_fmts(wmax - 1)
    pairs2 = list(itertools.product(fl2, fl2))
    for i in range(8):
        out.append(('exh-repr-%d' % i, 'task_exh', {'pairs': pairs2[i::8], 'methods': ('repr',)}))
    nh = int((2000 if tier == 'quick' else 30000) * scale)
    for i in range(12):
        out.append(('hyp-%d' % i, 'task_hyp', {'n': nh}))
    for i in range(4):
        out.append(('hyp-const-%d' % i, 'task_hyp_const', {'n': nh}))
    return out
