"""C13 - bitwise operators act on the n_word-bit two's-complement word."""
import itertools
import numpy as np
from hypothesis import strategies as st

from .. import model as M
from .. import common as C
from ..runner import run_given
from ..stateful import Mismatch

PROPERTY = 'C13'
RULE = ("~x, x&y, x|y, x^y with y a fixed-point object of the same n_word (either signedness, independent n_frac) or an integer mask (non-negative or negative, either side): result must have x's format and "
        "code == resign(op(kx mod 2^w, ky mod 2^w)); laws through the library: ~~x==x, ~x == -x-LSB (signed), ~(x&y)==~x|~y, ~(x|y)==~x&~y; different word lengths must raise ValueError. "
        "Generated: exhaustive - all code pairs for n_word<=6 x 4 signedness combinations (x as array of all codes against each scalar y, and scalar-scalar for n_word<=3); Hypothesis - boundary/random codes for "
        "n_word in {16,31,32,33,63,64,65,100,128}, Fxp / +mask / -mask / reflected operands, 1-d and 2-d arrays with an int mask for n_word<64. Non-trivial = a negative code or mixed signedness; distinct = distinct case keys.")
ASSUMPTIONS = ['operands are created from raw codes', 'Fxp-array (x) Fxp-array and >=64-bit arrays (x) mask are outside the quantifier (they raise; recorded as an observation)']
EXHAUSTIVE = False    # the whole quantifier is not enumerated; complete sub-domains are listed in EXHAUSTIVE_SUBDOMAINS
EXHAUSTIVE_SUBDOMAINS = {'quick': ['all code pairs, n_word<=6, 4 signedness combinations, n_frac in {0, n_word//2, n_word} per operand'], 'thorough': ['same for n_word<=7 with every n_frac 0..n_word of x']}
REQUIRED_CLASSES = {'negative': 1000, 'mixed-sign': 1000, 'wide>=64': 300, 'mask-negative': 200, 'reflected': 200, 'law': 500, 'indexed-operand': 200, 'shift-result-operand': 200, 'numpy-mask:rmask': 100, 'numpy-mask:mask': 100}
OPS = ('and', 'or', 'xor')
PY = {'and': lambda a, b: a & b, 'or': lambda a, b: a | b, 'xor': lambda a, b: a ^ b}
WIDE = [16, 31, 32, 33, 63, 64, 65, 100, 128]


def oracle(op, kx, ky, sx, w):
    return M.resign(PY[op](M.twos(kx, w), M.twos(ky, w)), sx, w)


def mk(F, fmt, k):
    return F(k, fmt[0], fmt[1], fmt[2], raw=True)


def check_vec(ctx, case):
    """x = array of codes, y = one scalar operand (Fxp or int mask)."""
    fx = tuple(case['fx'])
    sx, w, f = fx
    kxs = [int(k) for k in case['kx']]
    ykind = case['ykind']           # 'fxp', 'mask', 'rmask'
    ky = int(case['ky'])
    fy = tuple(case.get('fy') or fx)
    shape = tuple(case.get('shape') or [len(kxs)])
    F = C.Fxp()
    sig = 'vec/%s/%s%s' % (ykind, 'wide' if w >= 64 else 'core', '/numpy-mask' if ykind != 'fxp' and case.get('masktype', 'py') != 'py' else '')
    ctx.ev(len(kxs) * 4)

    def do():
        x = F(np.array(kxs, dtype=object if w > 62 else np.int64).reshape(shape), sx, w, f, raw=True)
        y = mk(F, fy, ky) if ykind == 'fxp' else ky
        if ykind != 'fxp' and case.get('masktype', 'py') != 'py':
            y = {'np.int64': np.int64, 'np.uint8': np.uint8, 'np.int16': np.int16, 'np-0d': np.array}[case['masktype']](ky)
        out = {}
        for op in OPS:
            if ykind == 'rmask':
                out[op] = (y & x) if op == 'and' else (y | x) if op == 'or' else (y ^ x)
            else:
                out[op] = (x & y) if op == 'and' else (x | y) if op == 'or' else (x ^ y)
        out['inv'] = ~x
        return x, out
    ok, res = ctx.guard(case, do, sig_prefix=sig + '/')
    if not ok:
        return
    x, out = res
    if C.flat(C.codes(x)) != kxs:
        ctx.fail(sig + '/operand-modified', case, {})
        return
    for op, z in out.items():
        if not isinstance(z, F) or C.fmt_of(z) != (bool(sx), w, f):
            ctx.fail('%s/%s/format' % (sig, op), case, {'got': C.fmt_of(z) if isinstance(z, F) else str(type(z))})
            return
        try:
            got = C.flat(C.codes(z))
        except ValueError as e:
            ctx.fail('%s/%s/non-integer-code' % (sig, op), case, {'error': str(e)})
            return
        want = [M.resign(~M.twos(k, w), sx, w) for k in kxs] if op == 'inv' else [oracle(op, k, ky, sx, w) for k in kxs]
        if got != want:
            i = next(i for i in range(len(want)) if got[i] != want[i])
            cls = ('neg' if kxs[i] < 0 else 'pos') + ('-neg' if ky < 0 else '-pos')
            ctx.fail('%s/%s/value/%s/%s%s' % (sig, op, cls, 's' if sx else 'u', ('s' if fy[0] else 'u') if ykind == 'fxp' else 'm'),
                     dict(case, kx=[kxs[i]], shape=[1]), {'kx': str(kxs[i]), 'ky': str(ky), 'expected': str(want[i]), 'got': str(got[i])})
            return
        if C.shape_of(z) != shape:
            ctx.fail('%s/%s/shape' % (sig, op), case, {'got': list(C.shape_of(z))})
            return


def check_scalar(ctx, case):
    """scalar (x) scalar, plus the algebraic laws evaluated through the library."""
    fx, fy = tuple(case['fx']), tuple(case['fy'])
    sx, w, f = fx
    kx, ky = int(case['kx']), int(case['ky'])
    F = C.Fxp()
    sig = 'scalar/%s%s' % ('wide' if w >= 64 else 'core', '/indexed' if case.get('indexed') else '/shift-result' if case.get('via') == 'shift' else '')
    ctx.ev(8)
    ctx.cls('law', 4)

    def elem(fmt, k):
        # the operand is an element taken out of an array (an ordinary scalar object as far as the statement goes)
        return F(np.array([k, 0], dtype=object if fmt[1] > 62 else np.int64), fmt[0], fmt[1], fmt[2], raw=True)[0]

    def shifted(fmt, k):
        # the operand is the result of a keep-mode right shift (2k >> 1), when 2k fits the word
        lo_, hi_ = M.rng(fmt[0], fmt[1])
        if not lo_ <= 2 * k <= hi_:
            return mk(F, fmt, k)
        return F(2 * k, fmt[0], fmt[1], fmt[2], raw=True, shifting='keep') >> 1

    def do():
        if case.get('indexed'):
            x, y = elem(fx, kx), elem(fy, ky)
        elif case.get('via') == 'shift':
            x, y = shifted(fx, kx), shifted(fy, ky)
        else:
            x, y = mk(F, fx, kx), mk(F, fy, ky)
        if case.get('indexed'):
            m = M.twos(ky, w)
            for name, z in (('and-mask', x & m), ('rmask-or', m | x)):
                want = oracle(name.replace('-mask', '').replace('rmask-', ''), kx, M.resign(m, sx, w), sx, w)
                if C.codes(z) != want or C.fmt_of(z) != (bool(sx), w, f):
                    raise Mismatch(name + '/value', {'expected': str(want), 'got': str(C.codes(z)), 'fmt': C.fmt_of(z)})
        r = {'and': x & y, 'or': x | y, 'xor': x ^ y, 'inv': ~x, 'invinv': ~~x}
        r['dm1'] = (~(x & y), (~x) | (~y))
        r['dm2'] = (~(x | y), (~x) & (~y))
        if sx and w >= 2:       # one LSB must itself be representable
            r['neg'] = (~x, (-x) - F(1, sx, w, f, raw=True)) if kx != M.rng(sx, w)[0] else None
        return x, y, r
    try:
        ok, res = ctx.guard(case, do, sig_prefix=sig + '/')
    except Mismatch as e:
        ctx.fail('%s/%s' % (sig, e.sig), case, e.detail)
        return
    if not ok:
        return
    x, y, r = res
    try:
        for op in OPS:
            if C.codes(r[op]) != oracle(op, kx, ky, sx, w) or C.fmt_of(r[op]) != (bool(sx), w, f):
                ctx.fail('%s/%s/value' % (sig, op), case, {'expected': str(oracle(op, kx, ky, sx, w)), 'got': str(C.codes(r[op])), 'fmt': C.fmt_of(r[op])})
                return
        if C.codes(r['inv']) != M.resign(~M.twos(kx, w), sx, w):
            ctx.fail(sig + '/inv/value', case, {'got': str(C.codes(r['inv']))})
            return
        if C.codes(r['invinv']) != kx:
            ctx.fail(sig + '/law/double-invert', case, {'got': str(C.codes(r['invinv']))})
            return
        for name in ('dm1', 'dm2'):
            a, b = r[name]
            if C.codes(a) != C.codes(b):
                ctx.fail(sig + '/law/de-morgan', case, {'lhs': str(C.codes(a)), 'rhs': str(C.codes(b))})
                return
        if sx and r.get('neg'):
            a, b = r['neg']
            # exact values from the codes (get_val() is a double and cannot hold more than 53 bits)
            va, vb = M.value_of(C.codes(a), a.n_frac), M.value_of(C.codes(b), b.n_frac)
            if va != vb:
                ctx.fail(sig + '/law/invert-is-neg-minus-lsb', case, {'lhs': str(va), 'rhs': str(vb)})
                return
    except ValueError as e:
        ctx.fail(sig + '/non-integer-code', case, {'error': str(e)})
        return
    if C.codes(x) != kx or C.codes(y) != ky:
        ctx.fail(sig + '/operand-modified', case, {})


def check_mismatch(ctx, case):
    fx, fy = tuple(case['fx']), tuple(case['fy'])
    F = C.Fxp()
    ctx.ev()
    for op in OPS:
        try:
            x, y = mk(F, fx, 0), mk(F, fy, 0)
            (x & y) if op == 'and' else (x | y) if op == 'or' else (x ^ y)
        except ValueError:
            continue
        except Exception as e:                          # noqa: BLE001
            ctx.fail('mismatch/%s/wrong-exception' % op, case, {'exception': repr(e)[:200]})
            return
        ctx.fail('mismatch/%s/accepted' % op, case, {})
        return


CHECKS = {'vec': check_vec, 'scalar': check_scalar, 'mismatch': check_mismatch}


def replay(ctx, case):
    CHECKS[case['check']](ctx, case)


def task_exh(ctx, combos, scalar_max_w):
    for (w, sx, sy, fxf, fyf) in combos:
        fx, fy = (sx, w, fxf), (sy, w, fyf)
        lox, hix = M.rng(sx, w)
        loy, hiy = M.rng(sy, w)
        kxs = list(range(lox, hix + 1))
        for ky in range(loy, hiy + 1):
            check_vec(ctx, {'check': 'vec', 'fx': list(fx), 'fy': list(fy), 'kx': kxs, 'ky': ky, 'ykind': 'fxp'})
            neg = sum(1 for k in kxs if k < 0)
            ctx.cls('negative', neg + (len(kxs) - neg if ky < 0 else 0))
            if sx != sy:
                ctx.cls('mixed-sign', len(kxs))
            ctx.nontrivial_enum(len(kxs) if (sx != sy or ky < 0) else neg)
            if w <= scalar_max_w:
                for kx in kxs:
                    check_scalar(ctx, {'check': 'scalar', 'fx': list(fx), 'fy': list(fy), 'kx': kx, 'ky': ky})
        # integer masks over the full two's complement range and beyond, both sides
        for mk_ in range(-(1 << w), (1 << w)):
            kind = 'mask' if mk_ % 2 == 0 else 'rmask'
            check_vec(ctx, {'check': 'vec', 'fx': list(fx), 'kx': kxs, 'ky': mk_, 'ykind': kind})
            if mk_ < 0:
                ctx.cls('mask-negative', len(kxs))
            if kind == 'rmask':
                ctx.cls('reflected', len(kxs))
        ctx.sample({'check': 'vec-exhaustive', 'fx': list(fx), 'fy': list(fy)}, True)


@st.composite
def st_codew(draw, s, w):
    lo, hi = M.rng(s, w)
    pats = [lo, hi, 0, 1, -1, hi - 1, lo + 1, int('01' * w, 2) & hi, (int('10' * w, 2) & ((1 << w) - 1)), 1 << 62, (1 << 63) - 1, 1 << 63, (1 << 64) - 1, -(1 << 63)]
    pats = [M.resign(p, s, w) if not lo <= p <= hi else p for p in pats]
    return draw(st.one_of(st.sampled_from(pats), st.integers(lo, hi)))


@st.composite
def st_case(draw):
    w = draw(st.one_of(st.sampled_from(WIDE), st.integers(7, 128)))
    sx, sy = draw(st.booleans()), draw(st.booleans())
    fx = (sx, w, draw(st.sampled_from([0, w // 2, w])))
    fy = (sy, w, draw(st.sampled_from([0, w // 3, w])))
    kind = draw(st.sampled_from(['scalar', 'scalar', 'vec-fxp', 'vec-mask', 'vec-rmask', 'mismatch']))
    if kind == 'scalar':
        return {'check': 'scalar', 'fx': list(fx), 'fy': list(fy), 'kx': draw(st_codew(sx, w)), 'ky': draw(st_codew(sy, w)), 'indexed': draw(st.integers(0, 3)) == 0, 'via': draw(st.sampled_from(['plain', 'plain', 'plain', 'shift']))}
    if kind == 'mismatch':
        w2 = w + draw(st.sampled_from([-1, 1, 8]))
        return {'check': 'mismatch', 'fx': list(fx), 'fy': [sy, max(w2, 1) if max(w2, 1) != w else w + 1, 0]}
    if kind == 'vec-fxp':
        shape = draw(st.sampled_from([[1], [3], [2, 2]])) if w < 64 else draw(st.sampled_from([[1], [3]]))
        n = int(np.prod(shape))
        return {'check': 'vec', 'fx': list(fx), 'fy': list(fy), 'kx': [draw(st_codew(sx, w)) for _ in range(n)], 'ky': draw(st_codew(sy, w)),
                'ykind': 'fxp', 'shape': shape}
    # int masks: arrays only for n_word < 64 (wider arrays with a mask are outside the quantifier)
    shape = draw(st.sampled_from([[1], [3], [2, 2], [2, 3]])) if w < 64 else [1]
    n = int(np.prod(shape))
    mask = draw(st.one_of(st.integers(-(1 << w), (1 << w) - 1), st.sampled_from([0, -1, 1, (1 << w) - 1, -(1 << (w - 1)), (1 << (w - 1))])))
    case = {'check': 'vec', 'fx': list(fx), 'kx': [draw(st_codew(sx, w)) for _ in range(n)], 'ky': mask, 'ykind': 'mask' if kind == 'vec-mask' else 'rmask', 'shape': shape}
    # the same mask held by a numpy integer (only types that hold it exactly)
    fits = [t for t, lo_, hi_ in (('np.uint8', 0, 255), ('np.int16', -(1 << 15), (1 << 15) - 1), ('np.int64', -(1 << 63), (1 << 63) - 1), ('np-0d', -(1 << 63), (1 << 63) - 1)) if lo_ <= mask <= hi_]
    if fits and draw(st.booleans()):
        case['masktype'] = draw(st.sampled_from(fits))
    return case


def body(ctx, case):
    fx = tuple(case['fx'])
    w = fx[1]
    if w >= 64:
        ctx.cls('wide>=64')
    nt = False
    if case['check'] != 'mismatch':
        kxs = case['kx'] if isinstance(case['kx'], list) else [case['kx']]
        ky = int(case['ky'])
        if any(int(k) < 0 for k in kxs) or ky < 0:
            ctx.cls('negative')
            nt = True
        if case.get('fy') and case['fy'][0] != fx[0] and case.get('ykind', 'fxp') == 'fxp':
            ctx.cls('mixed-sign')
            nt = True
        if case.get('ykind') in ('mask', 'rmask') and ky < 0:
            ctx.cls('mask-negative')
        if case.get('ykind') == 'rmask':
            ctx.cls('reflected')
        if case.get('masktype', 'py') != 'py':
            ctx.cls('numpy-mask:' + case['ykind'])
    if case.get('indexed'):
        ctx.cls('indexed-operand')
    elif case.get('via') == 'shift':
        ctx.cls('shift-result-operand')
    if nt:
        ctx.nontrivial(('bit', repr(sorted((k, repr(v)) for k, v in case.items()))))
    ctx.sample(case, nt)
    if w >= 64 and case['check'] == 'vec' and case.get('ykind') != 'fxp' and len(case['kx']) > 1:
        return
    CHECKS[case['check']](ctx, case)


def task_hyp(ctx, n):
    run_given(ctx, st_case(), body, n, ctx.task_seed)


def tasks(tier, scale=1.0):
    wmax = 6 if tier == 'quick' else 7
    combos = []
    for w in range(1, wmax + 1):
        for sx in (True, False):
            for sy in (True, False):
                fxs = [0, w // 2, w] if tier == 'quick' else list(range(0, w + 1))
                for fxf in sorted(set(fxs)):
                    combos.append((w, sx, sy, fxf, (fxf + 1) % (w + 1)))
    combos.sort(key=lambda c: -c[0])
    n = 32
    out = [('exh-%d' % i, 'task_exh', {'combos': combos[i::n], 'scalar_max_w': 3 if tier == 'quick' else 4}) for i in range(n)]
    nh = int((1500 if tier == 'quick' else 60000) * scale)
    out += [('hyp-%d' % i, 'task_hyp', {'n': nh}) for i in range(8)]
    return out
