#!/opt/veriftools/pyvenv/bin/python
"""Validate MANIFEST.json and every evidence file against the schemas (uses the tooling venv's jsonschema)."""
import json, glob, sys, jsonschema
ok = True
try:
    jsonschema.validate(json.load(open('MANIFEST.json')), json.load(open('/root/.vp/MANIFEST.schema.json')))
    print('MANIFEST.json ok')
except Exception as e:
    ok = False; print('MANIFEST.json INVALID', str(e)[:300])
es = json.load(open('/root/.vp/EVIDENCE.schema.json'))
for f in sorted(glob.glob('evidence/*.json')):
    try:
        jsonschema.validate(json.load(open(f)), es)
    except Exception as e:
        ok = False; print(f, 'INVALID', str(e)[:300])
print('evidence files checked:', len(glob.glob('evidence/*.json')))
sys.exit(0 if ok else 1)
