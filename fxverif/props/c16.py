"""C16 - comparisons and numeric conversions agree with the exact stored value."""
from fractions import Fraction
import operator
import numpy as np
from hypothesis import strategies as st

from .. import model as M
from .. import common as C
from ..runner import run_given

PROPERTY = 'C16'
RULE = ("Comparisons: for two fixed-point objects of any formats with n_word<=24 (n_frac -1..n_word+1), and for an object against a plain number (either side; python or numpy scalar, 0-d array, ndarray, or the numpy comparison ufunc), each of <,<=,==,!=,>,>= must return the truth "
        "value of the same relation between the exact stored values (Fractions), elementwise for arrays; y's code is chosen as floor(value(x)*2^fy)+{-1,0,1} (neighbours across grids) or an extreme. "
        "Conversions: for every code of every format with n_word<=8, n_frac -1..n_word+1, objects created from raw codes, from floats and from ints: get_val/astype(float)/float()==code*2^-n_frac, "
        "astype(int)/int()==floor, bool() iff code!=0, raw()==code, uraw()==code mod 2^n_word. Non-trivial = values differing by <=1 LSB of the finer grid (comparisons) or a negative non-integer value (int conversions); "
        "distinct = distinct case keys.")
ASSUMPTIONS = ['n_word<=24 so every stored value is an exact double', 'numbers compared against are exact doubles or integers, given as python numbers, numpy scalars, 0-d arrays or ndarrays on either side, or through the numpy comparison ufuncs']
EXHAUSTIVE = False    # the whole quantifier is not enumerated; complete sub-domains are listed in EXHAUSTIVE_SUBDOMAINS
EXHAUSTIVE_SUBDOMAINS = {'quick': ['conversions: every code of every format n_word<=8, n_frac -1..n_word+1, 3 creation routes; comparisons: all code pairs of all format pairs n_word<=3'],
                         'thorough': ['conversions as quick (n_word<=9); comparisons: all code pairs of all format pairs n_word<=4']}
REQUIRED_CLASSES = {'adjacent': 2000, 'equal-across-formats': 300, 'neg-nonint': 1000, 'number-operand': 500, 'array-compare': 300, 'numpy-number:left': 300, 'numpy-number:right': 300}
RELS = [('lt', operator.lt), ('le', operator.le), ('eq', operator.eq), ('ne', operator.ne), ('gt', operator.gt), ('ge', operator.ge)]


def as_bools(r):
    a = np.asarray(r)
    return [bool(e) for e in (a.ravel().tolist() if a.ndim else [a.item()])]


def check_compare(ctx, case):
    fx = tuple(case['fx'])
    kxs = [int(k) for k in case['kx']]
    kind = case['kind']            # 'fxp', 'num-right', 'num-left'
    F = C.Fxp()
    ctx.ev(len(kxs) * 6)
    vxs = [M.value_of(k, fx[2]) for k in kxs]
    scalar = case.get('scalar', False)
    if kind == 'fxp':
        fy = tuple(case['fy'])
        kys = [int(k) for k in case['ky']]
        vys = [M.value_of(k, fy[2]) for k in kys]
    else:
        vys = [Fraction(int(a), int(b)) for a, b in case['nums']]
        if kind == 'num-left' and case.get('numtype', 'py') != 'ndarray':
            vys = vys[:1]
    numtype = case.get('numtype', 'py') if kind != 'fxp' else 'py'
    sig = 'compare/%s/%s%s' % (kind, 'scalar' if scalar else 'array', '' if numtype == 'py' else '/' + numtype)

    def do():
        x = F(kxs[0] if scalar else np.array(kxs), fx[0], fx[1], fx[2], raw=True)
        if kind == 'fxp':
            y = F(kys[0] if scalar else np.array(kys), fy[0], fy[1], fy[2], raw=True)
        else:
            nums = [int(v) if v.denominator == 1 and case.get('intnum') else float(v) for v in vys]
            # a number on the left must be a plain python number (an ndarray / numpy scalar there goes through numpy's
            # ufunc machinery, which is outside the statement); on the right an array of numbers is fine
            if numtype == 'ndarray':
                y = np.array(nums)          # an ndarray of numbers, on either side
            else:
                y = nums[0] if scalar or len(nums) == 1 or kind == 'num-left' else np.array(nums)
                if numtype == 'np.float64':
                    y = np.float64(y) if not isinstance(y, np.ndarray) else y
                elif numtype == 'np.int64' and isinstance(y, int):
                    y = np.int64(y)
                elif numtype == 'np-0d' and not isinstance(y, np.ndarray):
                    y = np.array(y)
        out = {}
        for name, op in RELS:
            if numtype == 'ufunc':
                uf = {'lt': np.less, 'le': np.less_equal, 'eq': np.equal, 'ne': np.not_equal, 'gt': np.greater, 'ge': np.greater_equal}[name]
                out[name] = uf(y, x) if kind == 'num-left' else uf(x, y)
            else:
                out[name] = op(y, x) if kind == 'num-left' else op(x, y)
        return out
    ok, out = ctx.guard(case, do, sig_prefix=sig + '/')
    if not ok:
        return
    for name, op in RELS:
        got = as_bools(out[name])
        n = max(len(vxs), len(vys)) if not scalar else 1
        want = []
        for i in range(n):
            a = vxs[i if len(vxs) > 1 else 0]
            b = vys[i if len(vys) > 1 else 0]
            want.append(op(b, a) if kind == 'num-left' else op(a, b))
        if got != want:
            i = next(i for i in range(min(len(got), len(want))) if got[i] != want[i]) if len(got) == len(want) else 0
            ctx.fail('%s/%s' % (sig, name), case, {'index': i, 'x': str(vxs[i if len(vxs) > 1 else 0]), 'y': str(vys[i if len(vys) > 1 else 0]),
                                                   'expected': want, 'got': got})
            return


def check_convert(ctx, case):
    fmt = tuple(case['fmt'])
    s, w, f = fmt
    codes = [int(k) for k in case['codes']]
    how = case['how']
    F = C.Fxp()
    ctx.ev(len(codes) * 7)
    for k in codes:
        v = M.value_of(k, f)
        sig = 'convert/%s' % how
        one = dict(case, codes=[k])

        def do():
            if how == 'raw':
                x = F(k, s, w, f, raw=True)
            elif how == 'int' and v.denominator == 1:
                x = F(int(v), s, w, f)
            else:
                x = F(float(v), s, w, f)
            r = {'get_val': x.get_val(), 'call': x(), 'astype_float': x.astype(float), 'float': float(x), 'astype_int': x.astype(int),
                 'int': int(x), 'bool': bool(x), 'raw': x.raw(), 'uraw': x.uraw(), 'code': C.codes(x)}
            return r
        ok, r = ctx.guard(one, do, sig_prefix=sig + '/')
        if not ok:
            return
        if r['code'] != k:
            ctx.fail(sig + '/setup-code', one, {'got': r['code']})
            return
        fl = v.numerator // v.denominator
        checks = [('get_val', C.frac_of(np.asarray(r['get_val']).item()), v), ('call', C.frac_of(np.asarray(r['call']).item()), v),
                  ('astype_float', C.frac_of(np.asarray(r['astype_float']).item()), v), ('float', Fraction(r['float']), v),
                  ('astype_int', C.frac_of(np.asarray(r['astype_int']).item()), Fraction(fl)), ('int', Fraction(r['int']), Fraction(fl)),
                  ('bool', r['bool'], k != 0), ('raw', C.to_int(np.asarray(r['raw']).item()), k),
                  ('uraw', C.to_int(np.asarray(r['uraw']).item()), k % (1 << w))]
        for name, got, want in checks:
            if got != want:
                cls = 'neg-nonint' if (v < 0 and v.denominator != 1) else 'neg' if v < 0 else 'pos'
                ctx.fail('%s/%s/%s' % (sig, name, cls), one, {'code': k, 'value': str(v), 'expected': str(want), 'got': str(got)})
                return
        if name in ('astype_int', 'int') and not isinstance(r['int'], int):
            ctx.fail(sig + '/int-type', one, {'type': str(type(r['int']))})
            return


CHECKS = {'compare': check_compare, 'convert': check_convert}


def replay(ctx, case):
    CHECKS[case['check']](ctx, case)


def fmts16(max_w):
    return [(s, w, f) for w in range(1, max_w + 1) for s in (True, False) for f in range(-1, w + 2)]


def task_convert(ctx, fmts):
    for fmt in fmts:
        s, w, f = fmt
        lo, hi = M.rng(s, w)
        codes = list(range(lo, hi + 1))
        for how in ('raw', 'float', 'int'):
            check_convert(ctx, {'check': 'convert', 'fmt': list(fmt), 'codes': codes, 'how': how})
        nn = sum(1 for k in codes if k < 0 and M.value_of(k, f).denominator != 1)
        ctx.cls('neg-nonint', 3 * nn)
        ctx.nontrivial_enum(3 * nn)
        ctx.sample({'check': 'convert', 'fmt': list(fmt), 'codes': len(codes)}, True)


def task_compare_exh(ctx, pairs):
    for fx, fy in pairs:
        lox, hix = M.rng(fx[0], fx[1])
        loy, hiy = M.rng(fy[0], fy[1])
        kx, ky = [], []
        for a in range(lox, hix + 1):
            for b in range(loy, hiy + 1):
                kx.append(a)
                ky.append(b)
        check_compare(ctx, {'check': 'compare', 'kind': 'fxp', 'fx': list(fx), 'fy': list(fy), 'kx': kx, 'ky': ky})
        lsb = min(M.pow2(-fx[2]), M.pow2(-fy[2]))
        adj = sum(1 for a, b in zip(kx, ky) if abs(M.value_of(a, fx[2]) - M.value_of(b, fy[2])) <= lsb)
        eqx = sum(1 for a, b in zip(kx, ky) if M.value_of(a, fx[2]) == M.value_of(b, fy[2]))
        ctx.cls('adjacent', adj)
        ctx.cls('array-compare')
        if fx != fy:
            ctx.cls('equal-across-formats', eqx)
        ctx.nontrivial_enum(adj)
    ctx.sample({'check': 'compare-exhaustive', 'pairs': len(pairs)}, True)


@st.composite
def st_compare(draw):
    fx = draw(C.st_fmt(max_w=24, f_lo=-1, f_hi_extra=1))
    fy = draw(C.st_fmt(max_w=24, f_lo=-1, f_hi_extra=1))
    kind = draw(st.sampled_from(['fxp', 'fxp', 'num-right', 'num-left']))
    scalar = draw(st.booleans())
    n = 1 if scalar else draw(st.integers(1, 5))
    kxs = [draw(C.st_code(fx)) for _ in range(n)]
    case = {'check': 'compare', 'kind': kind, 'fx': list(fx), 'kx': kxs, 'scalar': scalar}
    loy, hiy = M.rng(fy[0], fy[1])
    if kind == 'fxp':
        kys = []
        for k in kxs:
            if draw(st.integers(0, 4)) == 0:
                ky = draw(st.sampled_from([loy, hiy]))
            else:
                t = M.scaled(M.value_of(k, fx[2]), fy[2])
                ky = t.numerator // t.denominator + draw(st.sampled_from([-1, 0, 0, 1]))
            kys.append(min(max(ky, loy), hiy))
        case.update(fy=list(fy), ky=kys)
    else:
        nums = []
        for k in kxs:
            v = M.value_of(k, fx[2])
            d = draw(st.sampled_from([Fraction(0), M.pow2(-fx[2]), -M.pow2(-fx[2]), M.pow2(-fx[2] - 1), -M.pow2(-fx[2] - 1), Fraction(1), Fraction(-1, 4)]))
            u = v + d
            nums.append([u.numerator, u.denominator])
        case.update(nums=nums, intnum=draw(st.booleans()), numtype=draw(st.sampled_from(['py', 'py', 'np.float64', 'np.int64', 'np-0d', 'ndarray', 'ufunc'])))
    return case


def body_compare(ctx, case):
    fx = tuple(case['fx'])
    nt = False
    if case['kind'] == 'fxp':
        fy = tuple(case['fy'])
        lsb = min(M.pow2(-fx[2]), M.pow2(-fy[2]))
        for a, b in zip(case['kx'], case['ky']):
            va, vb = M.value_of(int(a), fx[2]), M.value_of(int(b), fy[2])
            if abs(va - vb) <= lsb:
                ctx.cls('adjacent')
                nt = True
            if va == vb and fx != fy:
                ctx.cls('equal-across-formats')
    else:
        ctx.cls('number-operand')
        if case.get('numtype', 'py') != 'py':
            ctx.cls('numpy-number:' + ('left' if case['kind'] == 'num-left' else 'right'))
        ctx.cls('adjacent')
        nt = True
    if not case['scalar']:
        ctx.cls('array-compare')
    if nt:
        ctx.nontrivial(('cmp', repr(sorted((k, repr(v)) for k, v in case.items()))))
    ctx.sample(case, nt)
    check_compare(ctx, case)


def task_hyp(ctx, n):
    run_given(ctx, st_compare(), body_compare, n, ctx.task_seed)


def tasks(tier, scale=1.0):
    import itertools
    fl = fmts16(8 if tier == 'quick' else 9)
    fl.sort(key=lambda t: -t[1])
    out = [('convert-%d' % i, 'task_convert', {'fmts': fl[i::16]}) for i in range(16)]
    fc = fmts16(3 if tier == 'quick' else 4)
    pairs = list(itertools.product(fc, fc))
    out += [('compare-exh-%d' % i, 'task_compare_exh', {'pairs': pairs[i::8]}) for i in range(8)]
    nh = int((2500 if tier == 'quick' else 40000) * scale)
    out += [('hyp-compare-%d' % i, 'task_hyp', {'n': nh}) for i in range(12)]
    return out
