"""Hand-written semantic mutants of fxpmath (each still imports and is a 'realistic' slip).
Every entry names the properties whose quick check must kill it."""
O = 'objects.py'
U = 'utils.py'
F = 'functions.py'
MUTANTS = [
    # ---- C01 / C05
    dict(name='around-half-up', file=O, props=['C01', 'C05'],
         old="            rval = np.around(val)", new="            rval = np.floor(val + 0.5)"),
    dict(name='trunc-as-floor', file=O, props=['C01', 'C05'],
         old="            rval = np.trunc(val)", new="            rval = np.floor(val)"),
    dict(name='ceil-as-floor-plus-1', file=O, props=['C01', 'C05'],
         old="            rval = np.ceil(val)", new="            rval = np.floor(val) + 1"),
    dict(name='wrap-sign-threshold-off', file=U, props=['C01', 'C03'],
         old="x = np.where(x < (1 << (n_word-1)), x, x | (-m))", new="x = np.where(x <= (1 << (n_word-1)), x, x | (-m))"),
    dict(name='convfactor-negfrac-off-by-one', file=O, props=['C01'],
         old="conv_factor = 1/(1<<-self.n_frac)", new="conv_factor = 1/(1<<(-self.n_frac-1))" ),
    dict(name='clip-swapped-when-both', file=U, props=['C01', 'C02'],
         old="x_clipped = np.array(max(val_min, min(val_max, x)))\n    return x_clipped\n\n@np.vectorize\ndef int_clip",
         new="x_clipped = np.array(max(val_min, min(val_max - (1 if val_max > 1000 and x > 2 * val_max else 0), x)))\n    return x_clipped\n\n@np.vectorize\ndef int_clip"),
]
