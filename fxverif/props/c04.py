"""C04 - status flags and callbacks report exactly what happened, and are sticky."""
from fractions import Fraction
import numpy as np
from hypothesis import strategies as st

from .. import model as M
from .. import common as C
from ..runner import run_given, run_machine
from ..stateful import Mismatch, build_machine, run_history

PROPERTY = 'C04'
RULE = ("Histories (Hypothesis rule-based state machine, replayable as JSON) over a pool of objects with a recording Callback: new / write (call, set_val, equal, indexed and sliced assignment; scalar and array; "
        "values constructed on the quarter-LSB grid at the range ends) / write from another Fxp / set rounding+overflow / reset / resize / arithmetic (+,-,*,/,//,%) / unary -,+,abs / dispatched one-variable functions / Fxp(x) / a.like(t). "
        "Model: three sticky booleans per object (overflow |= any ROUND(x)>hi, underflow |= any ROUND(x)<lo, inaccuracy |= any stored!=input, plus the source's inaccuracy for Fxp sources), cleared by reset() which must "
        "leave status['extended_prec'] readable; after EVERY step every live object's flags and codes must equal the model; each explicit write must invoke exactly the callbacks of the conditions that occurred plus one "
        "on_value_change; results of arithmetic / functions / Fxp(x) must carry inaccuracy when an operand did. Exhaustive part: every boundary input (hi, lo +- {0,1/4,1/2,3/4,1}) of every format with n_word<=6, all n_frac, "
        "10 modes, 4 routes (call, array set_val, indexed assignment, one complex value carrying the input in both components). Non-trivial history = a flag-raising write, later a clean write, and a reset; distinct = distinct operation sequences.")
ASSUMPTIONS = ['n_word<=52; inputs exact doubles', 'callback counts are asserted for explicit writes on an existing object only (the constructor performs two internal writes)',
               'propagation through shifts, equal() and numpy functions fxpmath does not implement itself (np.negative, np.abs, np.sin ... fall through to numpy on float values) is not asserted (statement names arithmetic; anchors name function wrappers and Fxp-from-Fxp)']
EXHAUSTIVE = False    # the whole quantifier is not enumerated; complete sub-domains are listed in EXHAUSTIVE_SUBDOMAINS
EXHAUSTIVE_SUBDOMAINS = {'quick': ['boundary writes: n_word<=6 x n_frac -8..n_word+8 x 10 modes x 18 boundary inputs x 3 routes'], 'thorough': ['same']}
REQUIRED_CLASSES = {'history:raise-clean-reset': 50, 'write:overflow': 300, 'write:underflow': 300, 'write:inexact': 300, 'op:reset': 200, 'op:resize': 200,
                    'op:arith': 200, 'op:write_fxp': 200, 'write:empty-selection': 100, 'write:mask': 50, 'write:fancy': 50, 'op:unary': 100, 'op:like_method': 100, 'boundary': 10000}
CB_NAMES = ('on_status_overflow', 'on_status_underflow', 'on_status_inaccuracy', 'on_value_change')


class Recorder:
    def __init__(self):
        self.n = dict.fromkeys(CB_NAMES, 0)

    def on_value_change(self, obj, logs=None):
        self.n['on_value_change'] += 1

    def on_status_overflow(self, obj, logs=None):
        self.n['on_status_overflow'] += 1

    def on_status_underflow(self, obj, logs=None):
        self.n['on_status_underflow'] += 1

    def on_status_inaccuracy(self, obj, logs=None):
        self.n['on_status_inaccuracy'] += 1

    def take(self):
        out = dict(self.n)
        self.n = dict.fromkeys(CB_NAMES, 0)
        return out


class Obj:
    def __init__(self, x, fmt, modes, codes, shape, flags, cb):
        self.x, self.fmt, self.modes, self.codes, self.shape, self.flags, self.cb = x, tuple(fmt), tuple(modes), list(codes), tuple(shape), list(flags), cb

    def values(self):
        return [M.value_of(k, self.fmt[2]) for k in self.codes]


class World:
    MAX = 4

    def __init__(self):
        self.objs = []
        self.events = []
        self.extra_classes = []

    def cls_hook(self, name):
        self.extra_classes.append(name)

    # ---- helpers
    def pick(self, i):
        # indices 6 and 7 address the most recently produced object, so that chains of operations on one object
        # (derive -> resize -> write ...) are generated often; the others address the pool modulo its size
        if not self.objs:
            return None
        return self.objs[-1] if i % 8 >= 6 else self.objs[i % len(self.objs)]

    def adopt(self, z, modes=None):
        """Add an object produced by the library to the pool, reading its state once."""
        fmt = C.fmt_of(z)
        if not (1 <= fmt[1] <= 52):
            return None
        codes = C.flat(C.codes(z))
        o = Obj(z, fmt, modes or (z.config.rounding, z.config.overflow), codes, C.shape_of(z), C.flags(z), None)
        if len(self.objs) >= self.MAX:
            self.objs.pop(0)
        self.objs.append(o)
        return o

    def quantize(self, o, vals):
        s, w, f = o.fmt
        return [M.quant(v, s, w, f, o.modes[0], o.modes[1]) for v in vals]

    def expect_callbacks(self, o, q, opname):
        if o.cb is None:
            return
        got = o.cb.take()
        want = {'on_status_overflow': int(any(t[1] for t in q)), 'on_status_underflow': int(any(t[2] for t in q)),
                'on_status_inaccuracy': int(any(t[3] for t in q)), 'on_value_change': 1}
        if got != want:
            raise Mismatch('%s/callbacks' % opname, {'expected': want, 'got': got})

    def check_all(self, opname):
        for idx, o in enumerate(self.objs):
            try:
                codes = C.flat(C.codes(o.x))
            except ValueError as e:
                raise Mismatch('%s/non-integer-code' % opname, {'error': str(e)})
            st_ = o.x.status
            if not all(k in st_ for k in ('overflow', 'underflow', 'inaccuracy', 'extended_prec')):
                raise Mismatch('%s/status-keys' % opname, {'status': dict(st_)})
            if codes != o.codes or C.fmt_of(o.x) != (bool(o.fmt[0]), o.fmt[1], o.fmt[2]):
                raise Mismatch('%s/codes' % opname, {'obj': idx, 'expected': o.codes, 'got': codes, 'fmt': C.fmt_of(o.x)})
            if list(C.flags(o.x)) != [bool(b) for b in o.flags]:
                which = [n for n, a, b in zip(('overflow', 'underflow', 'inaccuracy'), C.flags(o.x), o.flags) if bool(a) != bool(b)]
                raise Mismatch('%s/flags/%s' % (opname, '+'.join(which)), {'obj': idx, 'expected': o.flags, 'got': list(C.flags(o.x))})

    def apply(self, op):
        getattr(self, 'op_' + op['op'])(op)
        self.check_all(op['op'] + ('/' + op['route'] if 'route' in op else ''))

    # ---- operations
    def op_new(self, op):
        F = C.Fxp()
        fmt, modes, n = tuple(op['fmt']), tuple(op['modes']), int(op['n'])
        cb = Recorder()
        x = F(None if n == 0 else np.zeros(n), fmt[0], fmt[1], fmt[2], rounding=modes[0], overflow=modes[1], callbacks=[cb])
        cb.take()
        o = Obj(x, fmt, modes, [0] * max(n, 1), () if n == 0 else (n,), [False, False, False], cb)
        if len(self.objs) >= self.MAX:
            self.objs.pop(0)
        self.objs.append(o)

    def op_write(self, op):
        o = self.pick(op['i'])
        if o is None:
            return
        route = op['route']
        f = o.fmt[2]
        x4s = [C.clamp_sig_bits(int(x), 53) for x in op['x4s']]
        is_arr = len(o.shape) == 1
        if route == 'setitem':
            if not is_arr:
                route = 'call'
            else:
                n = o.shape[0]
                a = op['idx'] % n
                selkind = op.get('sel')
                if selkind:
                    # one scalar written through a boolean mask / an index list / a slice - possibly selecting NOTHING, in which
                    # case nothing is stored and so nothing happened: no flag, no overflow / underflow / inaccuracy notification
                    bits = op.get('bits', 0)
                    sel = [] if selkind.startswith('empty') else [j for j in range(n) if (bits >> j) & 1] or [a]
                    vals = [C.v_from_x4(x4s[0], f)]
                    index = {'mask': np.array([j in sel for j in range(n)]), 'fancy': list(sel), 'empty-mask': np.zeros(n, dtype=bool),
                             'empty-fancy': [], 'empty-slice': slice(a, a)}[selkind]
                    if selkind == 'empty-fancy':
                        index = np.array([], dtype=int)
                    o.x[index] = float(vals[0])
                    self.cls_hook('write:' + ('empty-selection' if not sel else selkind))
                    if not sel:
                        got = o.cb.take() if o.cb is not None else None
                        if got is not None and any(got[k] for k in ('on_status_overflow', 'on_status_underflow', 'on_status_inaccuracy')):
                            raise Mismatch('write/setitem/empty-selection/callbacks', {'got': got})
                        self._last_q = []
                        return
                    vals = vals * len(sel)
                elif op.get('slice'):
                    b = min(a + len(x4s), n)
                    vals = [C.v_from_x4(x, f) for x in x4s[:b - a]]
                    o.x[a:b] = np.array([float(v) for v in vals])
                    sel = list(range(a, b))
                else:
                    vals = [C.v_from_x4(x4s[0], f)]
                    o.x[a] = float(vals[0])
                    sel = [a]
                q = self.quantize(o, vals)
                for j, t in zip(sel, q):
                    o.codes[j] = t[0]
        if route != 'setitem':
            if op.get('scalar') or not is_arr and not op.get('array'):
                vals = [C.v_from_x4(x4s[0], f)]
                obj, shape = float(vals[0]), ()
            else:
                vals = [C.v_from_x4(x, f) for x in x4s]
                obj, shape = np.array([float(v) for v in vals]), (len(vals),)
            if route == 'call':
                o.x(obj)
            elif route == 'set_val':
                o.x.set_val(obj)
            else:
                o.x.equal(obj)
            q = self.quantize(o, vals)
            o.codes, o.shape = [t[0] for t in q], shape
        for j, name in ((1, 'overflow'), (2, 'underflow'), (3, 'inexact')):
            if any(t[j] for t in q):
                o.flags[j - 1] = True
                self.events.append(('raise', id(o)))
        if not any(t[1] or t[2] or t[3] for t in q):
            self.events.append(('clean', id(o)))
        self._last_q = q
        self.expect_callbacks(o, q, 'write/' + op['route'])

    def op_write_fxp(self, op):
        d, s_ = self.pick(op['i']), self.pick(op['j'])
        if d is None or s_ is None or d is s_:
            return
        route = op['route']
        vals = s_.values()
        if route == 'setitem':
            if len(d.shape) != 1 or len(s_.shape) != 0:
                route = 'set_val'
            else:
                a = op['idx'] % d.shape[0]
                d.x[a] = s_.x
                q = self.quantize(d, vals[:1])
                d.codes[a] = q[0][0]
        if route != 'setitem':
            if route == 'call':
                d.x(s_.x)
            elif route == 'set_val':
                d.x.set_val(s_.x)
            else:
                d.x.equal(s_.x)
            q = self.quantize(d, vals)
            d.codes, d.shape = [t[0] for t in q], s_.shape
        for j in (1, 2, 3):
            if any(t[j] for t in q):
                d.flags[j - 1] = True
        if s_.flags[2]:
            if route == 'equal':
                d.flags[2] = bool(C.flags(d.x)[2])         # latitude: equal() is not required to propagate
            else:
                d.flags[2] = True
        self.expect_callbacks(d, q, 'write_fxp/' + op['route'])

    def op_set_mode(self, op):
        o = self.pick(op['i'])
        if o is None:
            return
        if op.get('mirror'):
            # the object's own rounding / overflow attributes mirror its configuration
            o.x.rounding, o.x.overflow = op['modes']
            if (o.x.config.rounding, o.x.config.overflow) != tuple(op['modes']) or (o.x.rounding, o.x.overflow) != tuple(op['modes']):
                raise Mismatch('set_mode/mirror-attribute-not-stored', {'config': [o.x.config.rounding, o.x.config.overflow]})
        else:
            o.x.config.rounding, o.x.config.overflow = op['modes']
        o.modes = tuple(op['modes'])

    def op_reset(self, op):
        o = self.pick(op['i'])
        if o is None:
            return
        o.x.reset()
        o.flags = [False, False, False]
        self.events.append(('reset', id(o)))
        if o.x.status['extended_prec'] is not False or not isinstance(o.x.get_status(), dict) or not isinstance(o.x.get_status(format=str), str):
            raise Mismatch('reset/status-record', {'status': dict(o.x.status)})
        if o.cb is not None:
            o.cb.take()

    def op_resize(self, op):
        o = self.pick(op['i'])
        if o is None:
            return
        vals = o.values()
        fmt = tuple(op['fmt'])
        o.x.resize(bool(fmt[0]), fmt[1], fmt[2])
        o.fmt = fmt
        q = self.quantize(o, vals)
        o.codes = [t[0] for t in q]
        for j in (1, 2, 3):
            if any(t[j] for t in q):
                o.flags[j - 1] = True
        self.expect_callbacks(o, q, 'resize')

    def op_arith(self, op):
        a, b = self.pick(op['i']), self.pick(op['j'])
        if a is None or b is None:
            return
        if len(a.shape) == 1 and len(b.shape) == 1 and a.shape != b.shape:
            return
        name = op['name']
        fa, fb = a.fmt, b.fmt
        fz = {'add': M.fmt_add, 'sub': M.fmt_add, 'mul': M.fmt_mul, 'truediv': M.fmt_truediv, 'floordiv': M.fmt_floordiv, 'mod': M.fmt_mod}[name](fa, fb)
        if not 1 <= fz[1] <= 53 or abs(fa[2] - fb[2]) > 40:
            return
        if name in ('truediv', 'floordiv', 'mod'):
            if any(k == 0 for k in b.codes) or fa[1] + abs(fz[2] - fa[2] + fb[2]) > 60:
                return
        x, y = a.x, b.x
        how = op.get('how', 'operator')
        if how == 'operator':
            z = {'add': lambda: x + y, 'sub': lambda: x - y, 'mul': lambda: x * y, 'truediv': lambda: x / y,
                 'floordiv': lambda: x // y, 'mod': lambda: x % y}[name]()
        else:
            import fxpmath
            F = C.Fxp()
            fn = getattr(fxpmath, name)
            T = F(None, fz[0], fz[1], fz[2])          # a fresh target of the optimal format: the store itself is exact
            if how == 'function':
                z = fn(x, y)
            elif how == 'out':
                z = fn(x, y, out=T)
            elif how == 'out_like':
                z = fn(x, y, out_like=T)
            elif how == 'numpy-out':
                npf = {'add': np.add, 'sub': np.subtract, 'mul': np.multiply, 'truediv': np.true_divide,
                       'floordiv': np.floor_divide, 'mod': np.mod}[name]
                z = npf(x, y, out=T)
            else:
                xc = x.deepcopy()
                xc.config.op_out = T
                z = {'add': lambda: xc + y, 'sub': lambda: xc - y, 'mul': lambda: xc * y, 'truediv': lambda: xc / y,
                     'floordiv': lambda: xc // y, 'mod': lambda: xc % y}[name]()
        if (a.flags[2] or b.flags[2]) and not C.flags(z)[2]:
            raise Mismatch('arith/%s/%s/inaccuracy-not-propagated' % (name, how), {'a': a.flags, 'b': b.flags, 'z': list(C.flags(z))})
        self.adopt(z)

    def op_arith_const(self, op):
        """x (op) constant and numpy-ufunc forms: the result must carry x's inaccuracy."""
        a = self.pick(op['i'])
        if a is None or a.fmt[1] > 40 or not -4 <= a.fmt[2] <= a.fmt[1] + 4:
            return
        c = op['c']
        name = op['name']
        x = a.x
        if name == 'add':
            z = (x + c) if not op.get('numpy') else np.add(x, a.x)
        elif name == 'sub':
            z = (c - x) if not op.get('numpy') else np.subtract(x, a.x)
        else:
            z = (x * c) if not op.get('numpy') else np.multiply(x, a.x)
        if a.flags[2] and not C.flags(z)[2]:
            raise Mismatch('arith_const/%s/inaccuracy-not-propagated' % name, {'a': a.flags, 'z': list(C.flags(z))})
        self.adopt(z)

    def op_func(self, op):
        a = self.pick(op['i'])
        if a is None or len(a.shape) != 1:
            return
        name = op['name']
        if a.fmt[1] + 4 > 52:
            return
        if name == 'fxp_sum':
            import fxpmath
            z = fxpmath.fxp_sum(a.x)          # the legacy exported sum helper
        elif op.get('out') and name in ('sum', 'max', 'min'):
            F = C.Fxp()
            T = F(None, a.fmt[0], a.fmt[1] + 4, a.fmt[2])
            z = getattr(np, name)(a.x, out=T) if op.get('numpy') else getattr(a.x, name)(out=T)
        else:
            z = getattr(np, name)(a.x) if op.get('numpy') else getattr(a.x, name)()
        if a.flags[2] and not C.flags(z)[2]:
            raise Mismatch('func/%s/inaccuracy-not-propagated' % name, {'a': a.flags, 'z': list(C.flags(z))})
        self.adopt(z)

    def op_unary(self, op):
        """-x, +x, abs(x): arithmetic with one operand; the result carries the operand's inaccuracy."""
        a = self.pick(op['i'])
        if a is None:
            return
        x = a.x
        z = {'neg': lambda: -x, 'pos': lambda: +x, 'abs': lambda: abs(x)}[op['name']]()
        if a.flags[2] and not C.flags(z)[2]:
            raise Mismatch('unary/%s/inaccuracy-not-propagated' % op['name'], {'a': a.flags, 'z': list(C.flags(z))})
        lo, hi = M.rng(*a.fmt[:2])
        want = [{'neg': -k, 'pos': k, 'abs': abs(k)}[op['name']] for k in a.codes]
        if all(lo <= k <= hi for k in want):
            # nothing exceeded the format: the result is exact and raises nothing of its own
            if C.flat(C.codes(z)) != want or C.fmt_of(z) != (bool(a.fmt[0]), a.fmt[1], a.fmt[2]):
                raise Mismatch('unary/%s/value' % op['name'], {'expected': want, 'got': C.flat(C.codes(z)), 'fmt': C.fmt_of(z)})
            if list(C.flags(z)) != [False, False, bool(a.flags[2])]:
                raise Mismatch('unary/%s/flags' % op['name'], {'a': a.flags, 'z': list(C.flags(z))})
        self.adopt(z)

    def op_like_method(self, op):
        """a.like(t): a new object in t's format holding a's value; its status is its own (not t's), plus a's inaccuracy."""
        a, t = self.pick(op['i']), self.pick(op['j'])
        if a is None or t is None:
            return
        sh = t.fmt[2] - a.fmt[2]
        if abs(sh) > 40:
            return
        z = a.x.like(t.x)
        if C.fmt_of(z) != (bool(t.fmt[0]), t.fmt[1], t.fmt[2]):
            raise Mismatch('like_method/format', {'expected': t.fmt, 'got': C.fmt_of(z)})
        if a.flags[2] and not C.flags(z)[2]:
            raise Mismatch('like_method/inaccuracy-not-propagated', {'a': a.flags, 'z': list(C.flags(z))})
        lo, hi = M.rng(*t.fmt[:2])
        if sh >= 0 and all(lo <= (k << sh) <= hi for k in a.codes):
            # the value fits the template's format exactly: same value, no flag of its own
            if C.flat(C.codes(z)) != [k << sh for k in a.codes]:
                raise Mismatch('like_method/value', {'expected': [k << sh for k in a.codes], 'got': C.flat(C.codes(z))})
            if list(C.flags(z)) != [False, False, bool(a.flags[2])]:
                which = [n for n, g, e in zip(('overflow', 'underflow', 'inaccuracy'), C.flags(z), [False, False, bool(a.flags[2])]) if bool(g) != bool(e)]
                raise Mismatch('like_method/flags/%s' % '+'.join(which), {'template_flags': t.flags, 'a': a.flags, 'z': list(C.flags(z))})
        self.adopt(z, modes=t.modes)

    def op_derive_like(self, op):
        """A new object built from plain values with like= / template= of an existing (possibly flagged) object:
        its flags are those of its own first write only."""
        t = self.pick(op['i'])
        if t is None:
            return
        F = C.Fxp()
        f = t.fmt[2]
        x4s = resolve_rel(t.fmt, op['rel'])
        vals = [C.v_from_x4(x4s[0], f)] if op.get('scalar') else [C.v_from_x4(x, f) for x in x4s]
        obj = float(vals[0]) if op.get('scalar') else np.array([float(v) for v in vals])
        cb = Recorder() if op.get('with_callbacks') else None
        kw = {'callbacks': [cb]} if cb is not None else {}
        z = F(obj, like=t.x, **kw) if op['how'] == 'like' else F(obj, template=t.x, **kw)
        q = self.quantize(t, vals)
        want = [any(u[1] for u in q), any(u[2] for u in q), any(u[3] for u in q)]
        if list(C.flags(z)) != want:
            which = [n for n, a, b in zip(('overflow', 'underflow', 'inaccuracy'), C.flags(z), want) if bool(a) != bool(b)]
            raise Mismatch('derive_like/%s/flags/%s' % (op['how'], '+'.join(which)), {'template_flags': t.flags, 'expected': want, 'got': list(C.flags(z))})
        if C.flat(C.codes(z)) != [u[0] for u in q]:
            raise Mismatch('derive_like/%s/codes' % op['how'], {'expected': [u[0] for u in q], 'got': C.flat(C.codes(z))})
        o = self.adopt(z, modes=t.modes)
        if cb is not None and o is not None:
            # callbacks given next to like= / template= are registered on the new object: later writes must notify them
            if list(z.callbacks) != [cb]:
                raise Mismatch('derive_like/%s/callbacks-argument-ignored' % op['how'], {'callbacks': repr(z.callbacks)[:100]})
            cb.take()
            o.cb = cb

    def op_derive(self, op):
        a = self.pick(op['i'])
        if a is None:
            return
        F = C.Fxp()
        z = F(a.x) if not op.get('like') else F(a.x, like=a.x)
        if a.flags[2] and not C.flags(z)[2]:
            raise Mismatch('derive/inaccuracy-not-propagated', {'a': a.flags, 'z': list(C.flags(z))})
        # (Fxp(x) without sizes re-infers the format with the default signedness, so only the flag is asserted here;
        #  value preservation of conversions is C10)
        if op.get('like') and C.flat(C.codes(z)) != a.codes:
            raise Mismatch('derive/value', {'expected': a.codes, 'got': C.flat(C.codes(z))})
        self.adopt(z)

    def summarize(self, ctx, trace):
        # non-trivial history: a raising write, later a clean write, and a reset on the same object
        by = {}
        for kind, oid in self.events:
            by.setdefault(oid, []).append(kind)
        nt = False
        for seq in by.values():
            if 'raise' in seq and 'reset' in seq and 'clean' in seq[seq.index('raise'):]:
                nt = True
        for op in trace:
            ctx.cls('op:' + op['op'])
        for c in self.extra_classes:
            ctx.cls(c)
        if nt:
            ctx.cls('history:raise-clean-reset')
            ctx.nontrivial(('hist', repr(trace)))
        ctx.sample({'check': 'history', 'steps': trace[:12]}, nt)


def check_history(ctx, case):
    w = run_history(ctx, World, case)
    return w


def check_boundary(ctx, case):
    """One boundary input written into a fresh object by one route: flags iff, callbacks exact."""
    fmt, modes = tuple(case['fmt']), tuple(case['modes'])
    s, w, f = fmt
    x4 = int(case['x4'])
    route = case['route']
    F = C.Fxp()
    ctx.ev()
    v = C.v_from_x4(x4, f)
    code, eo, eu, ei = M.quant(v, s, w, f, modes[0], modes[1])
    sig = 'boundary/%s' % route

    def do():
        cb = Recorder()
        if route == 'call':
            x = F(None, s, w, f, rounding=modes[0], overflow=modes[1], callbacks=[cb])
            cb.take()
            x(float(v))
            k = C.codes(x)
        elif route == 'call-complex':
            # one complex write (the same boundary input in both components): still one write, one notification per condition
            x = F(0j, s, w, f, rounding=modes[0], overflow=modes[1], callbacks=[cb])
            cb.take()
            x(complex(float(v), float(v)))
            re, im = C.ccodes(x)
            k = re[0] if re == im else None
        elif route == 'set_val-array':
            x = F(np.zeros(2), s, w, f, rounding=modes[0], overflow=modes[1], callbacks=[cb])
            cb.take()
            x.set_val(np.array([0.0, float(v)]))
            k = C.codes(x)[1]
        else:
            x = F(np.zeros(3), s, w, f, rounding=modes[0], overflow=modes[1], callbacks=[cb])
            cb.take()
            x[2] = float(v)
            k = C.codes(x)[2]
        return x, cb.take(), k
    ok, res = ctx.guard(case, do, sig_prefix=sig + '/')
    if not ok:
        return
    x, cbn, k = res
    side = 'over' if eo else 'under' if eu else 'in'
    if k != code:
        ctx.fail('%s/code/%s' % (sig, side), case, {'expected': code, 'got': k})
        return
    if C.flags(x) != (eo, eu, ei):
        which = [n for n, a, b in zip(('overflow', 'underflow', 'inaccuracy'), C.flags(x), (eo, eu, ei)) if a != b]
        ctx.fail('%s/flags/%s/%s' % (sig, '+'.join(which), side), case, {'x': str(Fraction(x4, 4)), 'expected': [eo, eu, ei], 'got': list(C.flags(x))})
        return
    want = {'on_status_overflow': int(eo), 'on_status_underflow': int(eu), 'on_status_inaccuracy': int(ei), 'on_value_change': 1}
    if cbn != want:
        ctx.fail('%s/callbacks/%s' % (sig, side), case, {'expected': want, 'got': cbn})
        return
    # sticky: a following clean write leaves the flags raised; reset clears them
    x(0.0) if route in ('call', 'call-complex') else x.set_val(np.zeros(C.shape_of(x)))
    if C.flags(x) != (eo, eu, ei):
        ctx.fail('%s/not-sticky' % sig, case, {'after_clean_write': list(C.flags(x))})
        return
    x.reset()
    if C.flags(x) != (False, False, False) or 'extended_prec' not in x.status:
        ctx.fail('%s/reset' % sig, case, {'status': dict(x.status)})


CHECKS = {'history': check_history, 'boundary': check_boundary}


def replay(ctx, case):
    CHECKS[case['check']](ctx, case)


# ---------------------------------------------------------------- strategies
def st_x4_any():
    """x4 relative to an unknown format: resolved against the object's format at run time (see op strategies)."""
    return st.integers(-6, 6)


@st.composite
def st_write(draw):
    # values are described relative to the target's range so that they stay meaningful for whichever object is picked
    return {'i': draw(st.integers(0, 7)), 'route': draw(st.sampled_from(['call', 'set_val', 'equal', 'setitem', 'setitem'])),
            'rel': [[draw(st.sampled_from(['hi', 'lo', 'zero', 'mid', 'far+', 'far-'])), draw(st.integers(-6, 6))] for _ in range(draw(st.integers(1, 4)))],
            'idx': draw(st.integers(0, 7)), 'slice': draw(st.booleans()), 'scalar': draw(st.booleans()), 'array': draw(st.booleans()),
            'sel': draw(st.sampled_from([None, None, None, 'mask', 'fancy', 'empty-mask', 'empty-fancy', 'empty-slice'])), 'bits': draw(st.integers(0, 255))}


def resolve_rel(fmt, rel):
    lo, hi = M.rng(fmt[0], fmt[1])
    span = hi - lo + 1
    out = []
    for base, q in rel:
        b = {'hi': hi, 'lo': lo, 'zero': 0, 'mid': (lo + hi) // 2, 'far+': hi + span + 3, 'far-': lo - span - 3}[base]
        x4 = 4 * b + q
        lim = (min(62, 53 + fmt[2]) if fmt[2] < 0 else 62)
        cap = (1 << max(lim, 2)) * 4 - 1
        out.append(C.clamp_sig_bits(max(min(x4, cap), -cap), 53))
    return out


class WorldRel(World):
    """World whose write op carries range-relative inputs ('rel'); they are resolved to x4s when applied."""

    def op_write(self, op):
        o = self.pick(op['i'])
        if o is None:
            return
        op2 = dict(op, x4s=resolve_rel(o.fmt, op['rel']))
        q_before = len(self.events)
        World.op_write(self, op2)
        self.stats = getattr(self, 'stats', [])
        self.stats.append(self._last_q)

    def summarize(self, ctx, trace):
        for q in getattr(self, 'stats', []):
            if any(t[1] for t in q):
                ctx.cls('write:overflow')
            if any(t[2] for t in q):
                ctx.cls('write:underflow')
            if any(t[3] for t in q):
                ctx.cls('write:inexact')
        World.summarize(self, ctx, trace)


def op_strategies():
    fmt = C.st_fmt()
    return {
        'new': st.fixed_dictionaries({'fmt': fmt.map(list), 'modes': C.st_modes().map(list), 'n': st.sampled_from([0, 0, 1, 3, 4])}),
        'write': st_write(), 'write#2': st_write(), 'write#3': st_write(), 'write#4': st_write(),
        'reset#2': st.fixed_dictionaries({'i': st.integers(0, 7)}),
        'write_fxp': st.fixed_dictionaries({'i': st.integers(0, 7), 'j': st.integers(0, 7), 'route': st.sampled_from(['call', 'set_val', 'equal', 'setitem']),
                                            'idx': st.integers(0, 7)}),
        'set_mode': st.fixed_dictionaries({'i': st.integers(0, 7), 'modes': C.st_modes().map(list), 'mirror': st.booleans()}),
        'reset': st.fixed_dictionaries({'i': st.integers(0, 7)}),
        'resize': st.fixed_dictionaries({'i': st.integers(0, 7), 'fmt': fmt.map(list)}),
        'arith': st.fixed_dictionaries({'i': st.integers(0, 7), 'j': st.integers(0, 7), 'name': st.sampled_from(['add', 'sub', 'mul', 'truediv', 'floordiv', 'mod']),
                                        'how': st.sampled_from(['operator', 'operator', 'function', 'out', 'out_like', 'numpy-out', 'config-out'])}),
        'arith_const': st.fixed_dictionaries({'i': st.integers(0, 7), 'name': st.sampled_from(['add', 'sub', 'mul']), 'c': st.sampled_from([1, 2, -1, 0.5, 3]),
                                              'numpy': st.booleans()}),
        'func': st.fixed_dictionaries({'i': st.integers(0, 7), 'name': st.sampled_from(['sum', 'cumsum', 'max', 'min', 'fxp_sum']), 'numpy': st.booleans(),
                                       'out': st.booleans()}),
        'derive': st.fixed_dictionaries({'i': st.integers(0, 7), 'like': st.booleans()}),
        'unary': st.fixed_dictionaries({'i': st.integers(0, 7), 'name': st.sampled_from(['neg', 'pos', 'abs'])}),
        'like_method': st.fixed_dictionaries({'i': st.integers(0, 7), 'j': st.integers(0, 7)}),
        'derive_like': st.fixed_dictionaries({'i': st.integers(0, 7), 'how': st.sampled_from(['like', 'template']), 'scalar': st.booleans(), 'with_callbacks': st.booleans(),
                                              'rel': st.lists(st.tuples(st.sampled_from(['hi', 'lo', 'zero', 'mid', 'mid', 'far+', 'far-']), st.integers(-6, 6)).map(list),
                                                              min_size=1, max_size=3)}),
    }


def check_history(ctx, case):      # noqa: F811  (history cases carry 'rel' writes)
    return run_history(ctx, WorldRel, case)


CHECKS['history'] = check_history
_MACHINE = None


def machine():
    global _MACHINE
    if _MACHINE is None:
        ops = op_strategies()
        _MACHINE = build_machine(WorldRel, ops, 'history', init_strategy=('new', ops['new']))
    return _MACHINE


def task_machine(ctx, n, steps):
    run_machine(ctx, machine(), n, steps, ctx.task_seed)


def task_boundary(ctx, fmts):
    for fmt in fmts:
        s, w, f = fmt
        lo, hi = M.rng(s, w)
        pts = sorted({4 * b + q for b in (lo, hi) for q in (-4, -3, -2, -1, 0, 1, 2, 3, 4)})
        for modes in C.MODES:
            for x4 in pts:
                for route in ('call', 'set_val-array', 'setitem', 'call-complex'):
                    check_boundary(ctx, {'check': 'boundary', 'fmt': list(fmt), 'modes': list(modes), 'x4': x4, 'route': route})
                    ctx.cls('boundary')
                    ctx.nontrivial_enum(1)
        ctx.sample({'check': 'boundary', 'fmt': list(fmt), 'points': len(pts)}, True)


def tasks(tier, scale=1.0):
    from .c01 import small_formats
    fmts = list(small_formats(6))
    out = [('boundary-%d' % i, 'task_boundary', {'fmts': fmts[i::16]}) for i in range(16)]
    n, steps = (150, 30) if tier == 'quick' else (4000, 50)
    n = int(n * scale)
    out += [('machine-%d' % i, 'task_machine', {'n': n, 'steps': steps}) for i in range(16)]
    return out
