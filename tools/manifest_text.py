"""Per-property manifest wording (level text, trusted base, deciding technique)."""
NOT_APPLICABLE = {}
_BASE = ('Trusted base: the int/Fraction reference model in fxverif/model.py, CPython, Hypothesis, and numpy only as a container for inputs and stored integers. '
         'Sampling outside the exhaustively enumerated sub-domains: absence of a counter-example there is evidence, not proof.')
TEXT = {
    'C01': dict(
        level='Exploration with an exact independent oracle: every quarter-LSB input over 3x the range of every format with n_word<=6 (all n_frac, all 10 modes) is enumerated completely through array and scalar carriers and four store routes; formats up to 52 bits, 15 element carriers x 9 containers x 4 routes, huge floats and complex inputs are searched with boundary-constructed Hypothesis inputs. Right level because the property is a universally quantified equation whose failure regions are boundary sets that enumeration + construction reach.',
        note=_BASE + ' Inputs are restricted to values exactly representable in their carrier and to the stated core domain.',
        technique='exhaustive small-format enumeration + Hypothesis boundary-constructed inputs vs exact Fraction reference quantizer (differential oracle)'),
    'C03': dict(
        level='Exploration: the wrap image of every quarter-LSB input over 3x the range of every format with n_word<=6 is enumerated completely and checked against two independent conditions (in range, congruent to the rounded input modulo 2^n_word); formats up to 52 bits, 64..256-bit words with python integers of up to 4x the word length, the shift-invariance metamorphic relation and wrap registers fed by add/sub/mul (out, out_like) are searched with Hypothesis.',
        note=_BASE + ' Only ROUND of the reference model is used (OVERFLOW is not); shift invariance is asserted only where rounding commutes with the shift (floor/ceil/around, or trunc/fix without a sign change).',
        technique='exhaustive small-format enumeration + Hypothesis; congruence-and-range oracle, metamorphic shift invariance, differential vs exact integer arithmetic for registers'),
    'C05': dict(
        level='Exploration by relational oracles that never call the reference quantizer: direction, half-LSB bound, ties-to-even, |error|<LSB, idempotence of every representable value under all 10 modes and three re-store routes, monotonicity of sorted inputs; complete for the quarter-LSB grid of every format with n_word<=6 (8 thorough), sampled to 52 bits.',
        note=_BASE + ' Independent of model.quant, so it also guards the C01 oracle.',
        technique='exhaustive enumeration + Hypothesis with relational (metamorphic / algebraic-law) oracles in exact Fractions'),
    'C07': dict(
        level='Exploration: every pair of codes of every pair of formats with n_word<=4 (n_frac -1..n_word+1) is enumerated for +,-,* (broadcast column x row) through operators, fxpmath functions and numpy ufuncs, raw and repr; all format pairs up to 52 bits with result word <=53 are sampled at their four extreme corners (which bound every other pair by monotonicity) and random expression trees of depth <=4 are evaluated against Fractions.',
        note=_BASE + ' Growth rules in the model are written from README/docs and are themselves checked (an exact result outside the documented format is reported).',
        technique='exhaustive pair enumeration + Hypothesis corner/expression-tree generation vs exact integer/Fraction arithmetic (differential oracle)'),
    'C08': dict(
        level='Exploration: exact result quantized by the reference model into the imposed format under the governing configuration, with independent random modes on x, y and the target so that a wrong governing config or a double rounding is visible; exhaustive code pairs for n_word<=4 format pairs x 4 policies x 3 ops x 10 modes, Hypothesis for 2<=n_word<=12 over sizing / constant (both sides, same/best) / out / out_like (kwarg and config routes) / raw vs repr / unary ops.',
        note=_BASE + ' For unrepresentable unary results only an in-range code with a raised flag is required (statement latitude).',
        technique='exhaustive + Hypothesis generated configurations vs reference quantizer of the exact Fraction result (differential oracle)'),
    'C09': dict(
        level='Exploration: every code pair (divisor != 0) of every pair of formats with n_word<=4 (5 thorough) for /, //, % under three roundings, raw and repr, against exact Fractions (exact-when-representable, <1 LSB otherwise, exact floor and modulo, identity (x//y)*y+x%y==x through the library); Hypothesis random pairs with result word <=53 biased to extreme and negative inexact quotients.',
        note=_BASE + ' Operand pairs whose aligned intermediate needs >=63 bits are a listed known finding (int64 raw kernels), classified from the formats alone.',
        technique='exhaustive pair enumeration + Hypothesis vs exact Fraction quotient/floor/modulo (differential + algebraic identity)'),
}
