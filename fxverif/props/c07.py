"""C07 - add, subtract, multiply with optimal sizing are exact and never overflow."""
from fractions import Fraction
import itertools
import numpy as np
from hypothesis import strategies as st

from .. import model as M
from .. import common as C
from ..runner import run_given

PROPERTY = 'C07'
RULE = ("x+y, x-y, x*y with default (optimal) sizing vs exact integer/Fraction arithmetic on the stored operand values; result format must equal the documented growth rule; "
        "no overflow/underflow flag (except unsigned-unsigned negative difference = exact difference quantized under the first operand's modes). "
        "Generated: (a) exhaustive - every pair of formats with n_word<=4 (quick: <=3 plus all pairs <=4 on operator route), n_frac -1..n_word+1, every pair of codes, 3 ops, by broadcasting a column against a row, "
        "through operators, fxpmath.add/sub/mul and np.add/subtract/multiply, raw and repr methods; (b) Hypothesis format pairs up to 52 bits with result word <=53, codes at the four extreme corners +-1 and random; "
        "(c) random +,-,* expression trees of depth <=4 over leaves of <=8 bits evaluated in Fractions. "
        "Non-trivial = an operand at an extreme code, or mixed signedness, or unequal n_frac; distinct = distinct (formats, codes, op, route, method).")
ASSUMPTIONS = ['operands are created from raw codes (no scale/bias); in the class dirty-operand their status record already carries overflow and underflow from earlier writes', 'result word <= 53 bits (wider results are C19)']
EXHAUSTIVE = False    # the whole quantifier is not enumerated; complete sub-domains are listed in EXHAUSTIVE_SUBDOMAINS
EXHAUSTIVE_SUBDOMAINS = {'quick': ['all format pairs n_word<=4 (n_frac -1..n_word+1) x all code pairs x {+,-,*} via operators (raw); n_word<=3 additionally via fxpmath.* / numpy ufuncs and repr method'],
                         'thorough': ['all format pairs n_word<=4 x all code pairs x 3 ops x 3 routes x 2 methods; n_word<=5 via operators']}
REQUIRED_CLASSES = {'extreme': 1000, 'mixed-sign': 1000, 'unequal-frac': 1000, 'tree': 100, 'dirty-operand': 500}

OPS = ('add', 'sub', 'mul')
ROUTES = ('operator', 'fxpmath', 'numpy')


def res_fmt(op, fx, fy):
    return M.fmt_mul(fx, fy) if op == 'mul' else M.fmt_add(fx, fy)


def exact_code(op, fx, fy, kx, ky):
    """Integer code of the exact result at the result's n_frac."""
    fz = res_fmt(op, fx, fy)[2]
    if op == 'mul':
        return kx * ky
    a = kx << (fz - fx[2])
    b = ky << (fz - fy[2])
    return a + b if op == 'add' else a - b


def apply_op(op, route, x, y):
    import fxpmath
    if route == 'operator':
        return x + y if op == 'add' else x - y if op == 'sub' else x * y
    if route == 'fxpmath':
        return getattr(fxpmath, op)(x, y)
    return {'add': np.add, 'sub': np.subtract, 'mul': np.multiply}[op](x, y)


def check_pair(ctx, case):
    """All listed codes of x (column) against all listed codes of y (row)."""
    fx, fy = tuple(case['fx']), tuple(case['fy'])
    op, route, method = case['op'], case['route'], case.get('method', 'raw')
    kxs, kys = [int(k) for k in case['kx']], [int(k) for k in case['ky']]
    mx = tuple(case.get('mx') or ('trunc', 'saturate'))
    F = C.Fxp()
    fz = res_fmt(op, fx, fy)
    lo, hi = M.rng(fz[0], fz[1])
    sig = 'pair/%s/%s/%s' % (op, route, method)
    scalar = case.get('scalar', False)

    def do():
        if scalar:
            x = F(kxs[0], fx[0], fx[1], fx[2], raw=True, op_method=method, rounding=mx[0], overflow=mx[1])
            y = F(kys[0], fy[0], fy[1], fy[2], raw=True)
        else:
            x = F(np.array(kxs, dtype=object if fx[1] > 62 else np.int64).reshape(-1, 1), fx[0], fx[1], fx[2], raw=True, op_method=method,
                  rounding=mx[0], overflow=mx[1])
            y = F(np.array(kys, dtype=object if fy[1] > 62 else np.int64), fy[0], fy[1], fy[2], raw=True)
        kx0, ky0 = C.codes(x), C.codes(y)
        dirty = case.get('dirty')
        if dirty:
            # operands whose own status record already shows an overflow / underflow from an earlier write (and which hold valid
            # codes again): the result of an exact operation must still come back with clean overflow / underflow flags
            for obj, which in ((x, 'x'), (y, 'y')):
                if which in dirty:
                    keep = np.array(obj.val, copy=True)
                    olo, ohi = M.rng(obj.signed, obj.n_word)
                    obj.set_val(ohi + 1, raw=True)
                    obj.set_val(olo - 1, raw=True)
                    obj.set_val(keep, raw=True)
                    if not (obj.status['overflow'] and obj.status['underflow']):
                        raise AssertionError('harness: operand status not dirty')
        z = apply_op(op, route, x, y)
        return x, y, z, kx0, ky0
    ok, res = ctx.guard(case, do, sig_prefix=sig + '/')
    ctx.ev(len(kxs) * len(kys) if not scalar else 1)
    if not ok:
        return
    x, y, z, kx0, ky0 = res
    if not isinstance(z, F):
        ctx.fail(sig + '/not-fxp', case, {'type': str(type(z))})
        return
    if C.fmt_of(z) != (bool(fz[0]), fz[1], fz[2]):
        ctx.fail(sig + '/format', case, {'expected': fz, 'got': C.fmt_of(z)})
        return
    try:
        got = C.codes(z)
    except ValueError as e:
        ctx.fail(sig + '/non-integer-code', case, {'error': str(e)})
        return
    if scalar:
        got = [[got]]
        kxs, kys = kxs[:1], kys[:1]
    if np.asarray(got, dtype=object).shape != (len(kxs), len(kys)):
        ctx.fail(sig + '/shape', case, {'expected': [len(kxs), len(kys)], 'got': list(np.asarray(got, dtype=object).shape)})
        return
    any_neg = False
    for i, kx in enumerate(kxs):
        for j, ky in enumerate(kys):
            e = exact_code(op, fx, fy, kx, ky)
            if e < lo or e > hi:
                if op == 'sub' and not fx[0] and not fy[0] and e < 0:
                    any_neg = True
                    e = M.OVERFLOW(e, fz[0], fz[1], mx[1])
                else:
                    ctx.fail(sig + '/model-growth-rule-too-small', case, {'kx': kx, 'ky': ky, 'exact_code': e, 'fmt': fz})
                    return
            if got[i][j] != e:
                cls = 'unsigned-negative-diff' if (op == 'sub' and not fx[0] and not fy[0] and exact_code(op, fx, fy, kx, ky) < 0) else 'value'
                ctx.fail('%s/%s/%s%s-%s%s' % (sig, cls, 's' if fx[0] else 'u', 'F' if fx[2] != fy[2] else 'f', 's' if fy[0] else 'u', ''),
                         dict(case, kx=[kx], ky=[ky], scalar=True), {'kx': kx, 'ky': ky, 'expected_code': e, 'got_code': got[i][j], 'res_fmt': fz})
                return
    o, u, _ = C.flags(z)
    if o or (u != any_neg):
        ctx.fail(sig + '/flags', case, {'flags': C.flags(z), 'expected_underflow': any_neg})
        return
    if C.flat(C.codes(x)) != C.flat(kx0) or C.flat(C.codes(y)) != C.flat(ky0) or C.fmt_of(x) != (bool(fx[0]), fx[1], fx[2]):
        ctx.fail(sig + '/operand-modified', case, {})


# ---- expression trees
def eval_tree(node, leaves, F):
    """Return (fxp, exact Fraction, model format)."""
    if isinstance(node, int):
        fmt, k = leaves[node]
        return F(k, fmt[0], fmt[1], fmt[2], raw=True), M.value_of(k, fmt[2]), (bool(fmt[0]), fmt[1], fmt[2])
    op, a, b = node
    xa, va, fa = eval_tree(a, leaves, F)
    xb, vb, fb = eval_tree(b, leaves, F)
    if op == 'add':
        return xa + xb, va + vb, M.fmt_add(fa, fb)
    if op == 'sub':
        return xa - xb, va - vb, M.fmt_add(fa, fb)
    return xa * xb, va * vb, M.fmt_mul(fa, fb)


def tree_fmt(node, leaves):
    if isinstance(node, int):
        f = leaves[node][0]
        return (bool(f[0]), f[1], f[2])
    op, a, b = node
    fa, fb = tree_fmt(a, leaves), tree_fmt(b, leaves)
    return M.fmt_mul(fa, fb) if op == 'mul' else M.fmt_add(fa, fb)


def has_unsigned_sub(node, leaves):
    if isinstance(node, int):
        return False
    op, a, b = node
    if op == 'sub' and not tree_fmt(a, leaves)[0] and not tree_fmt(b, leaves)[0]:
        return True
    return has_unsigned_sub(a, leaves) or has_unsigned_sub(b, leaves)


def to_tuple(t):
    return t if isinstance(t, int) else (t[0], to_tuple(t[1]), to_tuple(t[2]))


def check_tree(ctx, case):
    leaves = [(tuple(f), int(k)) for f, k in case['leaves']]
    tree = to_tuple(case['tree'])
    F = C.Fxp()
    ctx.ev()
    ok, res = ctx.guard(case, eval_tree, tree, leaves, F, sig_prefix='tree/')
    if not ok:
        return
    z, v, fz = res
    if C.fmt_of(z) != fz:
        ctx.fail('tree/format', case, {'expected': fz, 'got': C.fmt_of(z)})
        return
    got = C.values(z)[0]
    if got != v:
        ctx.fail('tree/value', case, {'expected': str(v), 'got': str(got)})
        return
    o, u, _ = C.flags(z)
    if o or u:
        ctx.fail('tree/flags', case, {'flags': C.flags(z)})


CHECKS = {'pair': check_pair, 'tree': check_tree}


def replay(ctx, case):
    CHECKS[case['check']](ctx, case)


def small_fmts(max_w):
    return [(s, w, f) for w in range(1, max_w + 1) for s in (True, False) for f in range(-1, w + 2)]


def all_codes(fmt):
    lo, hi = M.rng(fmt[0], fmt[1])
    return list(range(lo, hi + 1))


def task_exh(ctx, pairs, routes, methods):
    for fx, fy in pairs:
        kx, ky = all_codes(fx), all_codes(fy)
        for op in OPS:
            for route in routes:
                for method in methods:
                    case = {'check': 'pair', 'fx': list(fx), 'fy': list(fy), 'op': op, 'route': route, 'method': method, 'kx': kx, 'ky': ky}
                    check_pair(ctx, case)
                    n = len(kx) * len(ky)
                    ctx.nontrivial_enum(n if (fx[0] != fy[0] or fx[2] != fy[2]) else 2 * len(kx) + 2 * len(ky) - 4 if n > 4 else n)
                    ctx.cls('extreme', 2 * len(kx) + 2 * len(ky))
                    if fx[0] != fy[0]:
                        ctx.cls('mixed-sign', n)
                    if fx[2] != fy[2]:
                        ctx.cls('unequal-frac', n)
        ctx.sample({'check': 'pair-exhaustive', 'fx': list(fx), 'fy': list(fy), 'codes': [len(kx), len(ky)]}, True)


@st.composite
def st_corner_case(draw):
    # choose formats so that the optimal result word is <= 53
    for _ in range(20):
        fx = draw(C.st_fmt(max_w=51, f_lo=-1, f_hi_extra=1))
        fy = draw(C.st_fmt(max_w=51, f_lo=-1, f_hi_extra=1))
        op = draw(st.sampled_from(OPS))
        if res_fmt(op, fx, fy)[1] <= 53:
            break
    else:
        fx, fy, op = (True, 8, 3), (False, 8, 8), 'mul'

    def corner(fmt):
        lo, hi = M.rng(fmt[0], fmt[1])
        ks = set()
        for _ in range(draw(st.integers(1, 4))):
            k = draw(st.sampled_from([lo, hi])) + draw(st.sampled_from([0, 0, 1, -1]))
            ks.add(min(max(k, lo), hi))
        if draw(st.booleans()):
            ks.add(draw(st.integers(lo, hi)))
        return sorted(ks)
    return {'check': 'pair', 'fx': list(fx), 'fy': list(fy), 'op': op, 'route': draw(st.sampled_from(ROUTES)),
            'method': draw(st.sampled_from(['raw', 'raw', 'repr'])), 'kx': corner(fx), 'ky': corner(fy),
            'mx': list(draw(C.st_modes())), 'scalar': draw(st.booleans()), 'dirty': draw(st.sampled_from([None, None, 'x', 'y', 'xy']))}


def body_corner(ctx, case):
    fx, fy = tuple(case['fx']), tuple(case['fy'])
    key = ('pair', fx, fy, case['op'], case['route'], case['method'], tuple(case['kx']), tuple(case['ky']), case['scalar'], case.get('dirty'))
    ctx.cls('extreme')
    if fx[0] != fy[0]:
        ctx.cls('mixed-sign')
    if fx[2] != fy[2]:
        ctx.cls('unequal-frac')
    if case.get('dirty'):
        ctx.cls('dirty-operand')
    ctx.nontrivial(key)
    ctx.sample(case, True)
    check_pair(ctx, case)


@st.composite
def st_tree_case(draw):
    nleaves = draw(st.integers(2, 8))
    leaves = []
    for _ in range(nleaves):
        fmt = draw(C.st_fmt(max_w=8, f_lo=-1, f_hi_extra=1))
        leaves.append([list(fmt), draw(C.st_code(fmt))])

    def build(depth):
        if depth == 0 or draw(st.integers(0, 3)) == 0:
            return draw(st.integers(0, nleaves - 1))
        op = draw(st.sampled_from(OPS))
        a, b = build(depth - 1), build(depth - 1)
        node = [op, a, b]
        lv = [(tuple(f), k) for f, k in leaves]
        if tree_fmt(to_tuple(node), lv)[1] > 53:
            node = ['add', a, b]
            if tree_fmt(to_tuple(node), lv)[1] > 53:
                return a
        if op == 'sub' and has_unsigned_sub(to_tuple(node), lv):
            node = ['add', a, b]
        return node
    tree = build(4)
    if isinstance(tree, int):
        tree = ['add', tree, draw(st.integers(0, nleaves - 1))]
    return {'check': 'tree', 'leaves': leaves, 'tree': tree}


def body_tree(ctx, case):
    ctx.cls('tree')
    ctx.nontrivial(('tree', repr(case['tree']), repr(case['leaves'])))
    ctx.sample(case, True)
    check_tree(ctx, case)


def task_hyp(ctx, which, n):
    stg, body = {'corner': (st_corner_case, body_corner), 'tree': (st_tree_case, body_tree)}[which]
    run_given(ctx, stg(), body, n, ctx.task_seed)


def tasks(tier, scale=1.0):
    out = []
    f4 = small_fmts(4)
    pairs4 = list(itertools.product(f4, f4))
    f3 = small_fmts(3)
    pairs3 = list(itertools.product(f3, f3))
    if tier == 'quick':
        for i in range(16):
            out.append(('exh4-op-%d' % i, 'task_exh', {'pairs': pairs4[i::16], 'routes': ('operator',), 'methods': ('raw',)}))
        for i in range(8):
            out.append(('exh3-routes-%d' % i, 'task_exh', {'pairs': pairs3[i::8], 'routes': ('fxpmath', 'numpy'), 'methods': ('raw', 'repr')}))
    else:
        for i in range(32):
            out.append(('exh4-all-%d' % i, 'task_exh', {'pairs': pairs4[i::32], 'routes': ROUTES, 'methods': ('raw', 'repr')}))
        f5 = small_fmts(5)
        pairs5 = [p for p in itertools.product(f5, f5) if p[0][1] == 5 or p[1][1] == 5]
        for i in range(32):
            out.append(('exh5-op-%d' % i, 'task_exh', {'pairs': pairs5[i::32], 'routes': ('operator',), 'methods': ('raw',)}))
    nh = int((2000 if tier == 'quick' else 30000) * scale)
    for i in range(12):
        out.append(('hyp-corner-%d' % i, 'task_hyp', {'which': 'corner', 'n': nh}))
    for i in range(4):
        out.append(('hyp-tree-%d' % i, 'task_hyp', {'which': 'tree', 'n': nh // 2}))
    return out
