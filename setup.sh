#!/bin/sh
# Offline setup: make sure hypothesis is importable by /venv/bin/python (installs from the local wheelhouse if not).
HERE="$(cd "$(dirname "$0")" && pwd)"
PY="${VERIF_PYTHON:-/venv/bin/python}"
export PYTHONPATH="$HERE/.deps${PYTHONPATH:+:$PYTHONPATH}"
if "$PY" -c 'import hypothesis, numpy' >/dev/null 2>&1; then
    echo "setup: hypothesis $("$PY" -c 'import hypothesis;print(hypothesis.__version__)') present"
    exit 0
fi
mkdir -p "$HERE/.deps"
PIP_NO_INDEX=1 "$PY" -m pip install --no-index --find-links /opt/veriftools/wheels --target "$HERE/.deps" hypothesis || exit 1
"$PY" -c 'import hypothesis; print("setup: installed hypothesis", hypothesis.__version__)'
