"""C05 - rounding contracts checked as relations (no reference quantizer)."""
from fractions import Fraction
import numpy as np
from hypothesis import strategies as st

from .. import model as M
from .. import common as C
from ..runner import run_given
from .c01 import store, stored_codes, small_formats

PROPERTY = 'C05'
RULE = ("Relations only (Fractions; the reference quantizer of C01 is not used): for in-range inputs floor k<=x<k+1, ceil k-1<x<=k, "
        "trunc/fix |k|<=|x| and |x|-|k|<1 with no sign flip, around |k-x|<=1/2 with an even code on exact ties, every mode |k-x|<1, "
        "no overflow/underflow flag, inaccuracy flag iff k!=x; representable inputs are stored unchanged with no flag in all 10 modes and "
        "x(x()), x.set_val(x.get_val()), x.equal(x) are no-ops; sorted inputs give sorted codes under saturate (incl. out of range). "
        "Generated: exhaustive quarter-LSB grid over 3x range for n_word<=6 (<=8 thorough) by array and scalar stores; Hypothesis formats up to 52 bits "
        "with boundary-constructed inputs. Non-trivial = input not a whole number of LSBs (ties counted separately) or, for idempotence, a boundary/negative code; "
        "distinct = distinct (format, mode, input) keys.")
ASSUMPTIONS = ['inputs exactly representable as doubles within the core domain', 'ROUND/OVERFLOW of the reference model are not consulted by these checks']
EXHAUSTIVE = False    # the whole quantifier is not enumerated; complete sub-domains are listed in EXHAUSTIVE_SUBDOMAINS
EXHAUSTIVE_SUBDOMAINS = {'quick': ['quarter-LSB grid, n_word<=6, all n_frac/modes: direction, bound, ties, monotonicity, idempotence of every code'],
                         'thorough': ['same for n_word<=8']}
REQUIRED_CLASSES = {'tie': 500, 'inexact': 500, 'idem': 500, 'mono-pairs': 500, 'int-carrier': 500}


def relation_violation(mode, k, x):
    """Return a short tag when code k breaks the contract of `mode` for scaled input x, else None."""
    d = Fraction(k) - x
    if not abs(d) < 1:
        return 'bound'
    if mode == 'floor' and not (k <= x):
        return 'direction'
    if mode == 'ceil' and not (k >= x):
        return 'direction'
    if mode in ('trunc', 'fix'):
        if not abs(k) <= abs(x):
            return 'direction'
        if k != 0 and (k > 0) != (x > 0):
            return 'sign'
    if mode == 'around':
        if abs(d) > Fraction(1, 2):
            return 'half'
        if abs(d) == Fraction(1, 2) and k % 2 != 0:
            return 'tie-even'
    return None


def check_relations(ctx, case):
    """In-range inputs (x4 in quarter LSB units) stored as a float64 array or as scalars."""
    fmt = tuple(case['fmt'])
    s, w, f = fmt
    mode = tuple(case['mode'])
    x4s = list(case['x4s'])
    route = case.get('route', 'ctor')
    how = case.get('how', 'array')
    lo, hi = M.rng(s, w)
    xs = [Fraction(x4, 4) for x4 in x4s]
    vs = [C.v_from_x4(x4, f) for x4 in x4s]
    sig = 'rel/%s/%s' % (how, route)
    F = C.Fxp()
    if how in ('int-array', 'int-scalar'):
        # integer carriers: only inputs that are whole numbers travel this way (they still need rounding when n_frac<0)
        keep = [i for i, v in enumerate(vs) if v.denominator == 1 and abs(v) < 2 ** 62]
        x4s, xs, vs = [x4s[i] for i in keep], [xs[i] for i in keep], [vs[i] for i in keep]
        if not vs:
            return
        case = dict(case, x4s=x4s)
    if how == 'fxp':
        # the exact input arrives inside a finer fixed-point object (two more fraction bits hold the quarter LSBs)
        if w > 40 or any(abs(x4) >= 1 << (w + 6) for x4 in x4s):
            return
        src = F(np.array(x4s, dtype=np.int64), True, w + 8, f + 2, raw=True)
        ok, xobj = ctx.guard(case, lambda: F(src, s, w, f, rounding=mode[0], overflow=mode[1]), sig_prefix=sig + '/')
        if not ok:
            return
        got = C.flat(C.codes(xobj))
        fl = [C.flags(xobj)] * len(vs)
        per_elem_flags = False
    elif how in ('array', 'int-array'):
        arr = np.array([float(v) for v in vs], dtype=np.float64) if how == 'array' else np.array([int(v) for v in vs], dtype=np.int64)
        ok, res = ctx.guard(case, store, fmt, mode, arr, route, '1d', len(vs), (1, len(vs)), sig_prefix=sig + '/')
        if not ok:
            return
        xobj, sel = res
        got = stored_codes(xobj, sel)
        fl = [C.flags(xobj)] * len(vs)
        per_elem_flags = False
    else:
        got, fl = [], []
        for v in vs:
            ok, res = ctx.guard(case, store, fmt, mode, float(v) if how == 'scalar' else int(v), route, 'scalar', 1, (1, 1), sig_prefix=sig + '/')
            if not ok:
                return
            xobj, sel = res
            got.append(stored_codes(xobj, sel)[0])
            fl.append(C.flags(xobj))
        per_elem_flags = True
    ctx.ev(len(xs))
    for i, (x, k) in enumerate(zip(xs, got)):
        inrange = lo <= x <= hi
        kind = 'tie' if x.denominator == 2 else 'exact' if x.denominator == 1 else 'inexact'
        one = dict(case, x4s=[x4s[i]])
        if inrange:
            bad = relation_violation(mode[0], k, x)
            if bad is None and not (lo <= k <= hi):
                bad = 'range'
            if bad:
                ctx.fail('%s/%s/%s/%s' % (sig, mode[0], bad, kind), one, {'x': str(x), 'code': k})
                return
            if per_elem_flags:
                o, u, ia = fl[i]
                if o or u:
                    ctx.fail('%s/spurious-overflow-flag' % sig, one, {'x': str(x), 'flags': fl[i]})
                    return
                if ia != (Fraction(k) != x):
                    ctx.fail('%s/inaccuracy-flag/%s' % (sig, kind), one, {'x': str(x), 'code': k, 'flags': fl[i]})
                    return
    if not per_elem_flags and all(lo <= x <= hi for x in xs):
        o, u, ia = fl[0]
        want_ia = any(Fraction(k) != x for k, x in zip(got, xs))
        if o or u or ia != want_ia:
            ctx.fail('%s/array-flags' % sig, case, {'flags': fl[0], 'want_inaccuracy': want_ia})
            return
    # monotone under saturate: sort inputs, codes must be sorted
    if mode[1] == 'saturate':
        order = sorted(range(len(xs)), key=lambda i: xs[i])
        for a, b in zip(order, order[1:]):
            if got[a] > got[b]:
                ctx.fail('%s/monotone/%s' % (sig, mode[0]), dict(case, x4s=[x4s[a], x4s[b]]),
                         {'x1': str(xs[a]), 'x2': str(xs[b]), 'k1': got[a], 'k2': got[b]})
                return


def check_idem(ctx, case):
    """Every representable value is stored unchanged with no flag; re-storing an object's own value is a no-op."""
    fmt = tuple(case['fmt'])
    s, w, f = fmt
    mode = tuple(case['mode'])
    ks = list(case['codes'])
    how = case.get('how', 'scalar')
    F = C.Fxp()
    ctx.ev(len(ks))
    sig = 'idem/%s' % how
    items = [ks] if how == 'array' else [[k] for k in ks]
    for grp in items:
        vals = [M.value_of(k, f) for k in grp]
        one = dict(case, codes=grp)
        if how == 'array':
            inp = np.array([float(v) for v in vals])
        else:
            v = vals[0]
            inp = int(v) if (case.get('carrier') == 'int' and v.denominator == 1) else float(v)

        def do():
            x = F(inp, s, w, f, rounding=mode[0], overflow=mode[1])
            r0 = (C.flat(C.codes(x)), C.flags(x))
            x(x())
            r1 = (C.flat(C.codes(x)), C.flags(x))
            x.set_val(x.get_val())
            r2 = (C.flat(C.codes(x)), C.flags(x))
            x.equal(x)
            r3 = (C.flat(C.codes(x)), C.flags(x), C.shape_of(x))
            return r0, r1, r2, r3
        ok, res = ctx.guard(one, do, sig_prefix=sig + '/')
        if not ok:
            return
        r0, r1, r2, r3 = res
        if r0[0] != list(grp):
            ctx.fail('%s/changed/%s-%s' % (sig, mode[0], mode[1]), one, {'codes': grp, 'stored': r0[0]})
            return
        if any(r0[1]):
            ctx.fail('%s/flag/%s-%s' % (sig, mode[0], mode[1]), one, {'flags': r0[1]})
            return
        for name, r in (('call', r1), ('set_val', r2), ('equal', r3)):
            if r[0] != list(grp) or any(r[1]):
                ctx.fail('%s/restore-%s' % (sig, name), one, {'codes': grp, 'after': r[0], 'flags': r[1]})
                return


CHECKS = {'rel': check_relations, 'idem': check_idem}


def replay(ctx, case):
    CHECKS[case['check']](ctx, case)


def task_grid(ctx, fmts, scalar=False):
    for fmt in fmts:
        s, w, f = fmt
        lo, hi = M.rng(s, w)
        span = 1 << w
        x4s = list(range(4 * (lo - span), 4 * (hi + span) + 1))
        for mode in C.MODES:
            case = {'check': 'rel', 'fmt': list(fmt), 'mode': list(mode), 'x4s': x4s, 'how': 'array', 'route': 'ctor'}
            check_relations(ctx, case)
            inr = [x4 for x4 in x4s if 4 * lo <= x4 <= 4 * hi]
            case = {'check': 'rel', 'fmt': list(fmt), 'mode': list(mode), 'x4s': inr, 'how': 'array', 'route': 'set_val'}
            check_relations(ctx, case)
            if scalar:
                check_relations(ctx, dict(case, how='scalar', route='ctor'))
            check_relations(ctx, dict(case, how='fxp', route='ctor', x4s=x4s))
            if f < 0:
                # whole-number inputs through integer carriers are inexact only for negative n_frac
                check_relations(ctx, dict(case, how='int-array', route='ctor', x4s=x4s))
                check_relations(ctx, dict(case, how='int-array', route='setitem_int', x4s=inr))
                if scalar:
                    check_relations(ctx, dict(case, how='int-scalar', route='call', x4s=inr))
                ctx.cls('int-carrier', len(inr))
            n_in = len(inr)
            ctx.cls('tie', n_in // 4)
            ctx.cls('inexact', n_in // 2)
            ctx.cls('mono-pairs', len(x4s) - 1 if mode[1] == 'saturate' else 0)
            ctx.nontrivial_enum(n_in - (hi - lo + 1))
            codes = list(range(lo, hi + 1))
            check_idem(ctx, {'check': 'idem', 'fmt': list(fmt), 'mode': list(mode), 'codes': codes, 'how': 'array'})
            if scalar or w <= 3:
                check_idem(ctx, {'check': 'idem', 'fmt': list(fmt), 'mode': list(mode), 'codes': codes, 'how': 'scalar'})
            ctx.cls('idem', len(codes))
        ctx.sample({'check': 'rel-grid', 'fmt': list(fmt), 'points_per_mode': len(x4s)}, True)


@st.composite
def st_rel_case(draw):
    fmt = draw(C.st_fmt())
    s, w, f = fmt
    lim = min(62, 53 + f) if f < 0 else 62
    n = draw(st.integers(1, 8))
    inrange = draw(st.booleans())
    lo, hi = M.rng(s, w)
    x4s = []
    for _ in range(n):
        x4 = C.clamp_sig_bits(draw(C.st_x4(fmt, limit_bits=max(lim, 2))), 53)
        if inrange:
            x4 = min(max(x4, 4 * lo), 4 * hi)
            x4 = C.clamp_sig_bits(x4, 53)
            if x4 > 4 * hi:
                x4 = 4 * hi if M.sig_bits(4 * hi) <= 53 else 0
        x4s.append(x4)
    return {'check': 'rel', 'fmt': list(fmt), 'mode': list(draw(C.st_modes())), 'x4s': x4s,
            'how': draw(st.sampled_from(['array', 'scalar', 'int-array', 'int-scalar', 'fxp'])),
            'route': draw(st.sampled_from(['ctor', 'call', 'set_val', 'setitem', 'setitem_int']))}


def body_rel(ctx, case):
    fmt = tuple(case['fmt'])
    for x4 in case['x4s']:
        x = Fraction(x4, 4)
        kind = 'tie' if x.denominator == 2 else 'exact' if x.denominator == 1 else 'inexact'
        ctx.cls(kind)
        if kind != 'exact':
            ctx.nontrivial(('rel', fmt, tuple(case['mode']), x4, case['how'], case['route']))
    ctx.cls('mono-pairs', max(len(case['x4s']) - 1, 0))
    ctx.sample(case, any(x4 % 4 for x4 in case['x4s']))
    check_relations(ctx, case)


@st.composite
def st_idem_case(draw):
    fmt = draw(C.st_fmt())
    n = draw(st.integers(1, 5))
    codes = [draw(C.st_code(fmt)) for _ in range(n)]
    # value must be an exact double and inside the core domain
    s, w, f = fmt
    lim = min(62, 53 + f) if f < 0 else 62
    codes = [k if abs(k) < (1 << max(lim, 1)) else 0 for k in codes]
    return {'check': 'idem', 'fmt': list(fmt), 'mode': list(draw(C.st_modes())), 'codes': codes,
            'how': draw(st.sampled_from(['array', 'scalar'])), 'carrier': draw(st.sampled_from(['float', 'int']))}


def body_idem(ctx, case):
    fmt = tuple(case['fmt'])
    lo, hi = M.rng(fmt[0], fmt[1])
    for k in case['codes']:
        ctx.cls('idem')
        if k < 0 or k in (lo, hi):
            ctx.nontrivial(('idem', fmt, tuple(case['mode']), k, case['how']))
    ctx.sample(case, any(k < 0 for k in case['codes']))
    check_idem(ctx, case)


def task_hyp_rel(ctx, n):
    run_given(ctx, st_rel_case(), body_rel, n, ctx.task_seed)


def task_hyp_idem(ctx, n):
    run_given(ctx, st_idem_case(), body_idem, n, ctx.task_seed)


def tasks(tier, scale=1.0):
    out = []
    fmts = list(small_formats(6 if tier == 'quick' else 8))
    nchunk = 32 if tier == 'quick' else 64
    for i in range(nchunk):
        out.append(('grid-%d' % i, 'task_grid', {'fmts': fmts[i::nchunk], 'scalar': False}))
    sf = list(small_formats(4 if tier == 'quick' else 6))
    for i in range(16):
        out.append(('grid-scalar-%d' % i, 'task_grid', {'fmts': sf[i::16], 'scalar': True}))
    nh = int((2500 if tier == 'quick' else 40000) * scale)
    for i in range(12):
        out.append(('hyp-rel-%d' % i, 'task_hyp_rel', {'n': nh}))
    for i in range(4):
        out.append(('hyp-idem-%d' % i, 'task_hyp_idem', {'n': nh}))
    return out
