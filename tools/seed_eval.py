#!/venv/bin/python
"""Evaluate one seeded change produced in a scratch worktree and, if it is confirmed, keep it under seeded/<name>/.

usage: tools/seed_eval.py <worktree> <name> <PROP> [--props C01,C05] [--tier quick] [--keep-anyway]

Confirms (1) the 86 baseline tests still pass in the worktree, (2) demo.py fails with the change and passes without
it, then runs the named checks with FXP_REPO=<worktree> (the same code as applying the patch to /repo) and records
which of them report a VIOLATION."""
import argparse, json, os, shutil, subprocess, sys, time

HERE = os.path.dirname(os.path.dirname(os.path.abspath(__file__)))


def sh(cmd, cwd=None, env=None):
    r = subprocess.run(cmd, shell=True, cwd=cwd, env=env, capture_output=True, text=True)
    return r.returncode, r.stdout + r.stderr


def main():
    ap = argparse.ArgumentParser()
    ap.add_argument('worktree')
    ap.add_argument('name')
    ap.add_argument('prop')
    ap.add_argument('--props', default=None)
    ap.add_argument('--tier', default='quick')
    ap.add_argument('--needs', default='')
    a = ap.parse_args()
    wt = os.path.abspath(a.worktree)
    env = dict(os.environ, PYTHONPATH=wt)
    rc, diff = sh('git diff -- fxpmath', cwd=wt)
    if not diff.strip():
        print('no source change in', wt)
        return 2
    # 1. baseline tests with the change
    rc, out = sh('FXP_REPO=%s sh %s/tools/repo_tests.sh' % (wt, HERE), env=env)
    tests_ok = rc == 0
    print('tests with change:', out.strip().splitlines()[-1] if out.strip() else rc)
    # 2. demo with and without
    rc_with, out_with = sh('/venv/bin/python demo.py', cwd=wt, env=env)
    # the original code: a pristine export of HEAD (git stash is shared between worktrees, so it is not used)
    import tempfile
    tmp = tempfile.mkdtemp(prefix='seed_orig_')
    sh('git archive HEAD fxpmath | tar -x -C %s' % tmp, cwd=wt)
    shutil.copy(os.path.join(wt, 'demo.py'), os.path.join(tmp, 'demo.py'))
    rc_without, out_without = sh('/venv/bin/python demo.py', cwd=tmp, env=dict(os.environ, PYTHONPATH=tmp))
    shutil.rmtree(tmp, ignore_errors=True)
    print('demo with change: exit', rc_with, '| without: exit', rc_without)
    confirmed = tests_ok and rc_with != 0 and rc_without == 0
    # 3. our checks
    props = (a.props.split(',') if a.props else [a.prop])
    results = {}
    for p in props:
        e2 = dict(os.environ, FXP_REPO=wt, VERIF_NO_EVIDENCE='1')
        t0 = time.time()
        r = subprocess.run([os.path.join(HERE, 'check'), p, '--tier', a.tier], env=e2, capture_output=True, text=True)
        vio = [l for l in r.stdout.splitlines() if l.startswith('VIOLATION')]
        sigs = [l.strip()[len('signature: '):] for l in r.stdout.splitlines() if l.strip().startswith('signature:')]
        results[p] = {'exit': r.returncode, 'violations': len(vio), 'first_signatures': sigs[:4], 'wall_s': round(time.time() - t0, 1), 'tier': a.tier}
        print('check %s: exit=%d violations=%d %s' % (p, r.returncode, len(vio), sigs[:2]))
        # keep the first replay file as evidence of detection
    dst = os.path.join(HERE, 'seeded', a.name)
    if confirmed:
        os.makedirs(dst, exist_ok=True)
        open(os.path.join(dst, 'patch.diff'), 'w').write(diff)
        shutil.copy(os.path.join(wt, 'demo.py'), os.path.join(dst, 'demo.py'))
        note = open(os.path.join(wt, 'NOTE.md')).read() if os.path.exists(os.path.join(wt, 'NOTE.md')) else ''
        meta = {'breaks_property': a.prop, 'needs_to_manifest': a.needs or note.strip(), 'author': 'independent sub-agent given only the property text and a scratch worktree',
                'confirmed': {'baseline_tests_pass_with_change': tests_ok, 'demo_exit_with_change': rc_with, 'demo_exit_without_change': rc_without},
                'ran': ['sh tools/repo_tests.sh (FXP_REPO=worktree)', 'python demo.py with the change and against a pristine export of HEAD',
                        './check <P> --tier %s with FXP_REPO=<worktree carrying patch.diff>' % a.tier],
                'check_results': results,
                'detected_by': [p for p, r in results.items() if r['exit'] == 1 and r['violations'] > 0]}
        json.dump(meta, open(os.path.join(dst, 'meta.json'), 'w'), indent=1)
        print('kept as', dst, 'detected_by', meta['detected_by'])
    else:
        print('NOT CONFIRMED (tests_ok=%s demo_with=%s demo_without=%s)' % (tests_ok, rc_with, rc_without))
        print(out_with[-400:])
    return 0


if __name__ == '__main__':
    sys.exit(main())
