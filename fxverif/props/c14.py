"""C14 - shifts scale by powers of two: lossless in expand mode, arithmetic otherwise."""
from fractions import Fraction
import numpy as np
from hypothesis import strategies as st

from .. import model as M
from .. import common as C
from ..runner import run_given

PROPERTY = 'C14'
RULE = ("x<<n and x>>n for shifting modes expand/trunc/keep x overflow saturate/wrap. expand: value == v*2^n (resp. v/2^n) exactly (Fractions), no flag, code in range of the grown format; "
        "trunc/keep: format unchanged, x>>n code == floor(code/2^n), x<<n code == code*2^n when representable and otherwise an in-range code equal to the clamp or the wrap image; n=0 is the identity; "
        "operand code, format and status untouched. Generated: exhaustive - every code of every format with n_word<=6 (n_frac in {0, n_word//2}), every count 0..n_word+3, scalars, plus the whole code set as one array "
        "(expand mode sizes by the array-wide lowest set bit / largest magnitude); Hypothesis - boundary/random codes for n_word<=32, arrays up to 2-d, the count given as a python int or a numpy integer. "
        "Non-trivial = n>=1 and (negative code or a bit shifted out/in past the word); distinct = distinct case keys.")
ASSUMPTIONS = ['operands created from raw codes; n_word+n<=62', "x<<n in trunc/keep mode may clamp or wrap (statement's latitude)"]
EXHAUSTIVE = False    # the whole quantifier is not enumerated; complete sub-domains are listed in EXHAUSTIVE_SUBDOMAINS
EXHAUSTIVE_SUBDOMAINS = {'quick': ['all codes, n_word<=6, n_frac in {0,n_word//2}, counts 0..n_word+3, 3 shifting x 2 overflow modes, both directions; scalar and whole-format arrays'],
                         'thorough': ['same for n_word<=8']}
REQUIRED_CLASSES = {'expand': 1000, 'keep/trunc': 1000, 'negative': 1000, 'bits-lost': 500, 'array': 300, 'n=0': 100, 'numpy-count': 500}


def check_shift(ctx, case):
    fmt = tuple(case['fmt'])
    s, w, f = fmt
    codes = [int(k) for k in case['codes']]
    shape = tuple(case['shape'])
    n = int(case['n'])
    direction = case['dir']
    shifting, overflow = case['shifting'], case['overflow']
    F = C.Fxp()
    lo, hi = M.rng(s, w)
    sig = 'shift/%s/%s/%s%s' % (direction, shifting, 'scalar' if shape == () else 'array', '/numpy-count' if case.get('count', 'int') != 'int' else '')
    ctx.ev(len(codes))

    def do():
        obj = codes[0] if shape == () else np.array(codes, dtype=np.int64).reshape(shape)
        x = F(obj, s, w, f, raw=True, shifting=shifting, overflow=overflow)
        st0 = dict(x.status)
        cnt = {'int': int, 'np.int64': np.int64, 'np.uint8': np.uint8, 'np.int32': np.int32, 'np.uint64': np.uint64}[case.get('count', 'int')](n)
        z = (x << cnt) if direction == 'l' else (x >> cnt)
        return x, z, st0
    ok, res = ctx.guard(case, do, sig_prefix=sig + '/')
    if not ok:
        return
    x, z, st0 = res
    if C.flat(C.codes(x)) != codes or C.fmt_of(x) != (bool(s), w, f) or dict(x.status) != st0 or z is x:
        ctx.fail(sig + '/operand-modified', case, {'codes': C.flat(C.codes(x)), 'status': dict(x.status)})
        return
    if not isinstance(z, F) or C.shape_of(z) != shape:
        ctx.fail(sig + '/type-or-shape', case, {'shape': list(C.shape_of(z)) if isinstance(z, F) else None})
        return
    try:
        got = C.flat(C.codes(z))
    except ValueError as e:
        ctx.fail(sig + '/non-integer-code', case, {'error': str(e)})
        return
    zs, zw, zf = C.fmt_of(z)
    zlo, zhi = M.rng(zs, zw)
    if any(not zlo <= k <= zhi for k in got):
        ctx.fail(sig + '/code-out-of-range', case, {'codes': got, 'fmt': [zs, zw, zf]})
        return
    if shifting == 'expand':
        if zs != bool(s):
            ctx.fail(sig + '/signedness', case, {'fmt': [zs, zw, zf]})
            return
        for k, g in zip(codes, got):
            v = M.value_of(k, f)
            want = v * (1 << n) if direction == 'l' else v / (1 << n)
            if M.value_of(g, zf) != want:
                ctx.fail('%s/value/%s' % (sig, 'neg' if k < 0 else 'pos'), case, {'code': k, 'n': n, 'expected': str(want), 'got': str(M.value_of(g, zf)), 'fmt': [zs, zw, zf]})
                return
        if any(C.flags(z)[:2]):
            ctx.fail(sig + '/flags', case, {'flags': C.flags(z)})
            return
    else:
        if (zs, zw, zf) != (bool(s), w, f):
            ctx.fail(sig + '/format-changed', case, {'fmt': [zs, zw, zf]})
            return
        for k, g in zip(codes, got):
            if direction == 'r':
                want = k >> n
                if g != want:
                    ctx.fail('%s/value/%s' % (sig, 'neg' if k < 0 else 'pos'), case, {'code': k, 'n': n, 'expected': want, 'got': g})
                    return
            else:
                e = k << n
                if lo <= e <= hi:
                    if g != e:
                        ctx.fail('%s/value-representable/%s' % (sig, 'neg' if k < 0 else 'pos'), case, {'code': k, 'n': n, 'expected': e, 'got': g})
                        return
                else:
                    allowed = {M.OVERFLOW(e, s, w, 'saturate'), M.OVERFLOW(e, s, w, 'wrap')}
                    if g not in allowed:
                        ctx.fail('%s/value-overflow/%s' % (sig, 'neg' if k < 0 else 'pos'), case, {'code': k, 'n': n, 'allowed': sorted(allowed), 'got': g})
                        return
    rb = C.values(z)
    if rb != [M.value_of(g, zf) for g in got]:
        ctx.fail(sig + '/readback', case, {'codes': got, 'read': [str(v) for v in rb], 'vdtype': str(z.vdtype)})
        return
    if n == 0:
        if [M.value_of(g, zf) for g in got] != [M.value_of(k, f) for k in codes]:
            ctx.fail(sig + '/n=0-not-identity', case, {'got': got})


CHECKS = {'shift': check_shift}


def replay(ctx, case):
    CHECKS[case['check']](ctx, case)


def classify(ctx, case):
    fmt = tuple(case['fmt'])
    s, w, f = fmt
    n = case['n']
    lo, hi = M.rng(s, w)
    nt = False
    ctx.cls('expand' if case['shifting'] == 'expand' else 'keep/trunc')
    if n == 0:
        ctx.cls('n=0')
    if case['shape'] != []:
        ctx.cls('array')
    if case.get('count', 'int') != 'int':
        ctx.cls('numpy-count')
    for k in case['codes']:
        k = int(k)
        lost = (k & ((1 << n) - 1)) != 0 if case['dir'] == 'r' else not (lo <= (k << n) <= hi)
        if k < 0:
            ctx.cls('negative')
        if lost:
            ctx.cls('bits-lost')
        if n >= 1 and (k < 0 or lost):
            nt = True
    return nt


def task_exh(ctx, fmts):
    for fmt in fmts:
        s, w, f = fmt
        lo, hi = M.rng(s, w)
        allc = list(range(lo, hi + 1))
        for shifting in ('expand', 'trunc', 'keep'):
            for overflow in ('saturate', 'wrap'):
                for d in ('l', 'r'):
                    for n in range(0, w + 4):
                        base = {'check': 'shift', 'fmt': list(fmt), 'n': n, 'dir': d, 'shifting': shifting, 'overflow': overflow}
                        for k in allc:
                            case = dict(base, codes=[k], shape=[])
                            if classify(ctx, case):
                                ctx.nontrivial_enum(1)
                            check_shift(ctx, case)
                        case = dict(base, codes=allc, shape=[len(allc)])
                        classify(ctx, case)
                        check_shift(ctx, case)
                        # arrays without the odd codes / without the extremes exercise the array-wide sizing
                        sub = [k for k in allc if k % 4 == 0]
                        if len(sub) > 1:
                            check_shift(ctx, dict(base, codes=sub, shape=[len(sub)]))
        ctx.sample({'check': 'shift-exhaustive', 'fmt': list(fmt)}, True)


@st.composite
def st_case(draw):
    w = draw(st.one_of(st.sampled_from([7, 8, 12, 16, 24, 31, 32]), st.integers(1, 32)))
    s = draw(st.booleans())
    f = draw(st.sampled_from([0, w // 2]))
    fmt = (s, w, f)
    shape = draw(st.sampled_from([[], [], [1], [3], [5], [2, 2], [2, 3]]))
    m = int(np.prod(shape)) if shape else 1
    lo, hi = M.rng(s, w)

    def code():
        kind = draw(st.sampled_from(['edge', 'pow2', 'rand', 'even']))
        if kind == 'edge':
            return draw(C.st_code(fmt))
        if kind == 'pow2':
            k = (1 << draw(st.integers(0, w - 1))) * draw(st.sampled_from([1, -1]))
            return min(max(k, lo), hi)
        if kind == 'even':
            k = draw(st.integers(lo, hi))
            return (k >> draw(st.integers(0, w))) << draw(st.integers(0, 3)) if lo <= ((k >> 2) << 2) <= hi else k
        return draw(st.integers(lo, hi))
    codes = [min(max(code(), lo), hi) for _ in range(m)]
    n = draw(st.integers(0, min(w + 3, 62 - w)))
    return {'check': 'shift', 'fmt': list(fmt), 'codes': codes, 'shape': shape, 'n': n, 'dir': draw(st.sampled_from(['l', 'r'])),
            'shifting': draw(st.sampled_from(['expand', 'trunc', 'keep'])), 'overflow': draw(st.sampled_from(['saturate', 'wrap'])),
            'count': draw(st.sampled_from(['int', 'int', 'int', 'np.int64', 'np.uint8', 'np.int32', 'np.uint64']))}


def body(ctx, case):
    nt = classify(ctx, case)
    if nt:
        ctx.nontrivial(('shift', repr(sorted((k, repr(v)) for k, v in case.items()))))
    ctx.sample(case, nt)
    check_shift(ctx, case)


def task_hyp(ctx, n):
    run_given(ctx, st_case(), body, n, ctx.task_seed)


def tasks(tier, scale=1.0):
    wmax = 6 if tier == 'quick' else 8
    fmts = [(s, w, f) for w in range(1, wmax + 1) for s in (True, False) for f in sorted({0, w // 2})]
    fmts.sort(key=lambda t: -t[1])
    n = 16 if tier == 'quick' else 32
    out = [('exh-%d' % i, 'task_exh', {'fmts': fmts[i::n]}) for i in range(n)]
    nh = int((2000 if tier == 'quick' else 30000) * scale)
    out += [('hyp-%d' % i, 'task_hyp', {'n': nh}) for i in range(12)]
    return out
