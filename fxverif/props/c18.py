"""C18 - extended precision: words of 64+ bits store and render integers bit-exactly."""
import numpy as np
from hypothesis import strategies as st

from .. import model as M
from .. import common as C
from ..runner import run_given
from .c13 import oracle as bit_oracle

PROPERTY = 'C18'
RULE = ("Stated grid n_word in {64,65,66,72,96,127,128,129,200,256} x n_frac in {0,1,n_word/2,n_word-1,n_word} x signedness x overflow mode: python-integer inputs (raw=True code, integer value mode, "
        "set_val(raw=True), call) at and just beyond both bounds, multiples of 2^n_word, around 2^63 and 2^64, alternating bit patterns and random codes of up to 4x the word length; raw binary/hex strings of in-range codes. "
        "Expected: stored code == exact clamp / two's-complement wrap of the python integer, held as python int, overflow flag iff input>hi, underflow flag iff input<lo, bin()/hex() equal the model's images, "
        "~,&,|,^ equal the two's-complement oracle; 1-d arrays (lists and object arrays, homogeneous and mixed magnitude) element-wise; extended_prec indicator == (n_word>=64) for n_word 1..70 and the grid. "
        "Non-trivial = code with >=54 significant bits (a float round trip would destroy it) or out of range; distinct = distinct case keys.")
ASSUMPTIONS = ['integer and string inputs only (float inputs into >=64-bit words are outside the statement)', 'the inaccuracy flag is not asserted for wide words']
EXHAUSTIVE = False    # the whole quantifier is not enumerated; complete sub-domains are listed in EXHAUSTIVE_SUBDOMAINS
EXHAUSTIVE_SUBDOMAINS = {'quick': ['the full stated (n_word, n_frac, signed, overflow) grid x all boundary/modulus/2^63/2^64 codes x 4 routes', 'extended_prec for n_word 1..70'],
                         'thorough': ['same grid + 40 random codes per cell']}
REQUIRED_CLASSES = {'>=54-sig-bits': 2000, 'out-of-range': 2000, 'array': 500, 'array-mixed': 200, 'string': 500, 'bitwise': 500}
GRID_W = [64, 65, 66, 72, 96, 127, 128, 129, 200, 256]


def grid_f(w):
    return sorted({0, 1, w // 2, w - 1, w})


def boundary_codes(s, w):
    lo, hi = M.rng(s, w)
    m = 1 << w
    out = set()
    for b in (lo, hi):
        for d in range(-2, 3):
            out.add(b + d)
    for j in (-2, -1, 1, 2, 3):
        for d in (-1, 0, 1):
            out.add(j * m + d)
            out.add(j * m + hi + d)
    for b in (1 << 63, 1 << 64, -(1 << 63), -(1 << 64)):
        for d in (-1, 0, 1):
            out.add(b + d)
    out.update([0, 1, -1, int('01' * w, 2) & hi, -(int('01' * w, 2) & hi) if s else 5, (1 << (w - 2)) + 1, hi - (1 << 20) - 1])
    return sorted(out)


def store(F, fmt, overflow, k, route, f_shift=0):
    s, w, f = fmt
    kw = dict(overflow=overflow)
    if route == 'ctor-raw':
        return F(k, s, w, f, raw=True, **kw)
    if route == 'set_val-raw':
        return F(None, s, w, f, **kw).set_val(k, raw=True)
    if route == 'ctor-value':
        return F(k, s, w, f, **kw)
    if route == 'call-value':
        return F(None, s, w, f, **kw)(k)
    raise ValueError(route)


def check_scalar(ctx, case):
    fmt = tuple(case['fmt'])
    s, w, f = fmt
    overflow = case['overflow']
    k_in = int(case['k'])
    route = case['route']
    F = C.Fxp()
    lo, hi = M.rng(s, w)
    ctx.ev()
    value_mode = route.endswith('value')
    r = (k_in << f) if value_mode else k_in
    want = M.OVERFLOW(r, s, w, overflow)
    side = 'over' if r > hi else 'under' if r < lo else 'in'
    sig = 'scalar/%s/%s' % (route, overflow)
    ok, x = ctx.guard(case, store, F, fmt, overflow, k_in, route, sig_prefix=sig + '/')
    if not ok:
        return
    item = np.asarray(x.val).item()
    if not isinstance(item, int) or isinstance(item, bool):
        ctx.fail(sig + '/code-not-python-int', case, {'type': str(type(item)), 'val': str(item)})
        return
    if item != want:
        ctx.fail('%s/code/%s' % (sig, side), case, {'input': str(r), 'expected': str(want), 'got': str(item)})
        return
    o, u, _ = C.flags(x)
    if (o, u) != (r > hi, r < lo):
        ctx.fail('%s/flags/%s' % (sig, side), case, {'expected': [r > hi, r < lo], 'got': [o, u]})
        return
    if x.status.get('extended_prec') is not True:
        ctx.fail(sig + '/extended_prec', case, {'status': dict(x.status)})
        return
    ok, imgs = ctx.guard(case, lambda: (x.bin(), x.hex(), x.bin(frac_dot=True)), sig_prefix=sig + '/render/')
    if not ok:
        return
    if imgs[0] != M.bin_image(want, w) or imgs[1] != M.hex_image(want, w) or imgs[2] != M.bin_image(want, w, n_frac=f):
        ctx.fail(sig + '/render', case, {'code': str(want), 'bin': imgs[0], 'hex': imgs[1]})
        return


def check_string(ctx, case):
    fmt = tuple(case['fmt'])
    s, w, f = fmt
    k = int(case['k'])
    F = C.Fxp()
    ctx.ev()
    ctx.cls('string')
    for name, text in (('bin', '0b' + M.bin_image(k, w)), ('hex', M.hex_image(k, w))):
        for rname, thunk in (('ctor', lambda t=text: F(t, s, w, f, raw=True, overflow=case['overflow'])),
                             ('set_val', lambda t=text: F(None, s, w, f, overflow=case['overflow']).set_val(t, raw=True))):
            sig = 'string/%s/%s' % (name, rname)
            ok, x = ctx.guard(case, thunk, sig_prefix=sig + '/')
            if not ok:
                return
            item = np.asarray(x.val).item()
            if not isinstance(item, int) or item != k or any(C.flags(x)[:2]):
                ctx.fail(sig, case, {'text': text, 'expected': str(k), 'got': str(item), 'type': str(type(item)), 'flags': C.flags(x)})
                return


def check_array(ctx, case):
    fmt = tuple(case['fmt'])
    s, w, f = fmt
    overflow = case['overflow']
    ks = [int(k) for k in case['codes']]
    how = case['how']       # 'list-raw', 'object-raw', 'list-value'
    F = C.Fxp()
    lo, hi = M.rng(s, w)
    ctx.ev(len(ks))
    value_mode = how.endswith('value')
    rs = [(k << f) if value_mode else k for k in ks]
    want = [M.OVERFLOW(r, s, w, overflow) for r in rs]
    sig = 'array/%s/%s' % (how, overflow)
    inp = list(ks) if how.startswith('list') else np.array(ks, dtype=object)
    if how.startswith('npmix'):
        # a list / tuple in which the elements that fit are numpy integer scalars and the others python integers
        inp = [np.uint64(k) if 0 <= k < (1 << 63) and i % 4 == 1 else np.int64(k) if -(1 << 63) <= k < (1 << 63) and i % 3 != 2 else np.int32(k) if abs(k) < (1 << 31) else int(k)
               for i, k in enumerate(ks)]       # (int64 next to uint64 scalars promote to float64 in numpy)
        if how.startswith('npmix-tuple'):
            inp = tuple(inp)
    before = repr(inp)
    def build():
        if not how.startswith('setitem'):
            return F(inp, s, w, f, raw=not value_mode, overflow=overflow)
        # element by element into an existing wide array (indexed assignment / set_val(index=))
        x = F([0] * len(ks), s, w, f, overflow=overflow)
        for i, k in enumerate(ks):
            if value_mode:
                x[i] = k
            else:
                x.set_val(k, raw=True, index=i)
        return x
    ok, x = ctx.guard(case, build, sig_prefix=sig + '/')
    if not ok:
        return
    items = np.asarray(x.val).ravel().tolist()
    if any(not isinstance(e, int) or isinstance(e, bool) for e in items):
        ctx.fail(sig + '/code-not-python-int', case, {'types': sorted({str(type(e)) for e in items}), 'vals': [str(e) for e in items]})
        return
    if items != want:
        ctx.fail(sig + '/code', case, {'expected': [str(v) for v in want], 'got': [str(v) for v in items]})
        return
    o, u, _ = C.flags(x)
    if (o, u) != (any(r > hi for r in rs), any(r < lo for r in rs)):
        ctx.fail(sig + '/flags', case, {'got': [o, u]})
        return
    ok, imgs = ctx.guard(case, lambda: (x.bin(), x.hex()), sig_prefix=sig + '/render/')
    if not ok:
        return
    if list(imgs[0]) != [M.bin_image(k, w) for k in want] or list(imgs[1]) != [M.hex_image(k, w) for k in want]:
        ctx.fail(sig + '/render', case, {'bin': [str(b) for b in imgs[0]]})
        return
    if repr(inp) != before:
        ctx.fail(sig + '/input-mutated', case, {})


def check_bitwise(ctx, case):
    fx, fy = tuple(case['fx']), tuple(case['fy'])
    kx, ky = int(case['kx']), int(case['ky'])
    F = C.Fxp()
    ctx.ev(4)
    ctx.cls('bitwise')
    sx, w, f = fx

    def do():
        x = F(kx, fx[0], fx[1], fx[2], raw=True)
        y = F(ky, fy[0], fy[1], fy[2], raw=True)
        return {'and': x & y, 'or': x | y, 'xor': x ^ y, 'inv': ~x, 'mask': x & ky}
    ok, r = ctx.guard(case, do, sig_prefix='bitwise/')
    if not ok:
        return
    for op in ('and', 'or', 'xor'):
        got = np.asarray(r[op].val).item()
        if got != bit_oracle(op, kx, ky, sx, w) or not isinstance(got, int):
            ctx.fail('bitwise/' + op, case, {'expected': str(bit_oracle(op, kx, ky, sx, w)), 'got': str(got), 'type': str(type(got))})
            return
    if np.asarray(r['inv'].val).item() != M.resign(~M.twos(kx, w), sx, w):
        ctx.fail('bitwise/inv', case, {'got': str(np.asarray(r['inv'].val).item())})
        return
    if np.asarray(r['mask'].val).item() != bit_oracle('and', kx, ky, sx, w):
        ctx.fail('bitwise/mask', case, {'got': str(np.asarray(r['mask'].val).item())})


def extprec_routes(F, s, w, f):
    """Objects of word length w obtained by every construction / derivation route (name, object)."""
    import fxpmath
    lo, hi = M.rng(s, w)
    base = F(hi, s, w, f, raw=True)
    arr = F([hi, 0, lo], s, w, f, raw=True)
    yield 'ctor-raw', base
    yield 'ctor-array', arr
    yield 'dtype', F(None, dtype=M.dtype_str(s, w, f))
    yield 'like_kw', F(1, like=base)
    yield 'like_kw-array', F([1, 0], like=arr)
    yield 'index', arr[0]
    yield 'slice', arr[0:2]
    yield 'deepcopy', base.deepcopy()
    yield 'like-method', F(1, s, 8, 0).like(base)
    yield 'from-fxp', F(base, s, w, f)
    yield 'auto-n_frac', F(1, s, w, n_word_max=max(w, 64))
    yield 'n_int+n_frac', F(1, s, n_int=w - f - int(s), n_frac=f) if w - f - int(s) >= 0 else base
    yield 'invert', ~base
    yield 'and-mask', base & 1
    if w >= 2:
        half = F(1, s, w - 1, 0, raw=True)
        yield 'add->w', half + half          # (w-1)-bit operands give a w-bit sum
        yield 'fxpmath.add', fxpmath.add(half, half)
        yield 'neg', -base
        t = F(None, s, 8, 0)
        t.resize(s, w, f)
        yield 'resize-up', t
        u = F(1, s, max(w, 70) + 3, 0, raw=True)
        u.resize(s, w, f)
        yield 'resize-down', u
    if w % 2 == 0 and w >= 4:
        q = F(1, s, w // 2, 0, raw=True)
        yield 'mul->w', q * q


def check_extprec(ctx, case):
    F = C.Fxp()
    w = int(case['w'])
    ctx.ev()
    for s in (True, False):
        for f in (0, w // 2):
            ok, objs = ctx.guard(case, lambda: list(extprec_routes(F, s, w, f)), sig_prefix='extprec/routes/')
            if not ok:
                return
            for name, z in objs:
                ctx.ev()
                if z.status.get('extended_prec') is not (z.n_word >= 64):
                    ctx.fail('extprec/route/' + name, case, {'w': w, 'signed': s, 'n_frac': f, 'n_word': z.n_word, 'status': dict(z.status)})
                    return
    for s in (True, False):
        for f in (0, w // 2):
            ok, x = ctx.guard(case, lambda: F(None, s, w, f), sig_prefix='extprec/')
            if not ok:
                return
            if x.status.get('extended_prec') is not (w >= 64):
                ctx.fail('extprec/indicator', case, {'w': w, 'status': dict(x.status)})
                return
            y = F(None, s, 8, 0)
            y.resize(s, w, f)
            if y.status.get('extended_prec') is not (w >= 64):
                ctx.fail('extprec/indicator-after-resize', case, {'w': w, 'status': dict(y.status)})
                return
            y.reset()
            if y.status.get('extended_prec') is not (w >= 64):
                ctx.fail('extprec/indicator-after-reset', case, {'w': w, 'status': dict(y.status)})
                return


CHECKS = {'scalar': check_scalar, 'string': check_string, 'array': check_array, 'bitwise': check_bitwise, 'extprec': check_extprec}


def replay(ctx, case):
    CHECKS[case['check']](ctx, case)


def classify_code(ctx, r, fmt):
    lo, hi = M.rng(fmt[0], fmt[1])
    nt = False
    if M.sig_bits(r) >= 54:
        ctx.cls('>=54-sig-bits')
        nt = True
    if r > hi or r < lo:
        ctx.cls('out-of-range')
        nt = True
    return nt


def task_grid(ctx, words, nrand, seed):
    import hashlib

    class _PRF:
        """Deterministic code stream: a pure function of VERIF_SEED (task seed), no RNG state."""
        def __init__(self, key):
            self.key, self.i = key, 0

        def randrange(self, a, b):
            self.i += 1
            span = b - a
            nbytes = (span.bit_length() + 7) // 8 + 8
            raw = b''
            j = 0
            while len(raw) < nbytes:
                raw += hashlib.sha256(('%s:%d:%d' % (self.key, self.i, j)).encode()).digest()
                j += 1
            return a + int.from_bytes(raw[:nbytes], 'big') % span
    rnd = _PRF('%d-%d' % (ctx.task_seed, seed))
    for w in words:
        for s in (True, False):
            lo, hi = M.rng(s, w)
            for f in grid_f(w):
                fmt = (s, w, f)
                for overflow in ('saturate', 'wrap'):
                    codes = boundary_codes(s, w) + [rnd.randrange(-(1 << (4 * w)), 1 << (4 * w)) for _ in range(nrand)] \
                        + [rnd.randrange(lo, hi + 1) for _ in range(nrand)]
                    for k in codes:
                        for route in ('ctor-raw', 'set_val-raw'):
                            if classify_code(ctx, k, fmt):
                                ctx.nontrivial_enum(1)
                            check_scalar(ctx, {'check': 'scalar', 'fmt': list(fmt), 'overflow': overflow, 'k': k, 'route': route})
                        if f <= w // 2:
                            v = k >> f
                            for route in ('ctor-value', 'call-value'):
                                if classify_code(ctx, v << f, fmt):
                                    ctx.nontrivial_enum(1)
                                check_scalar(ctx, {'check': 'scalar', 'fmt': list(fmt), 'overflow': overflow, 'k': v, 'route': route})
                        if lo <= k <= hi:
                            check_string(ctx, {'check': 'string', 'fmt': list(fmt), 'overflow': overflow, 'k': k})
                    inr = [k for k in codes if lo <= k <= hi]
                    for i in range(0, len(inr) - 1, 2):
                        check_bitwise(ctx, {'check': 'bitwise', 'fx': list(fmt), 'fy': [not s if i % 4 else s, w, 0], 'kx': inr[i],
                                            'ky': M.resign(inr[i + 1], (not s if i % 4 else s), w)})
                    # arrays: homogeneous big, mixed magnitude, with out-of-range elements
                    big = [k for k in codes if abs(k) >= (1 << 63)][:6]
                    mixed = [codes[0], 5, codes[-1], -3 if s else 3, (1 << 64) - 1, 7]
                    for name, arr in (('homog', big), ('mixed', mixed), ('inrange-mixed', [hi, 1, lo, 2, (1 << 63), 0])):
                        for how in ('list-raw', 'object-raw', 'list-value', 'setitem-raw', 'setitem-value', 'npmix-raw', 'npmix-value', 'npmix-tuple-raw'):
                            if how.endswith('value') and f > w // 2:
                                continue
                            a2 = [k >> f for k in arr] if how.endswith('value') else arr
                            ctx.cls('array')
                            if name != 'homog':
                                ctx.cls('array-mixed')
                            ctx.nontrivial_enum(1)
                            check_array(ctx, {'check': 'array', 'fmt': list(fmt), 'overflow': overflow, 'codes': a2, 'how': how})
        ctx.sample({'check': 'grid', 'w': w}, True)


def task_extprec(ctx):
    for w in list(range(1, 71)) + GRID_W:
        check_extprec(ctx, {'check': 'extprec', 'w': w})
        ctx.nontrivial_enum(1)


@st.composite
def st_case(draw):
    w = draw(st.one_of(st.sampled_from(GRID_W), st.integers(64, 256)))
    s = draw(st.booleans())
    f = draw(st.sampled_from(grid_f(w)))
    fmt = (s, w, f)
    lo, hi = M.rng(s, w)
    overflow = draw(st.sampled_from(['saturate', 'wrap']))
    kind = draw(st.sampled_from(['scalar', 'scalar', 'array', 'string', 'bitwise']))
    big = st.one_of(st.integers(-(1 << (4 * w)), 1 << (4 * w)), st.integers(lo, hi), st.sampled_from(boundary_codes(s, w)))
    if kind == 'scalar':
        route = draw(st.sampled_from(['ctor-raw', 'set_val-raw', 'ctor-value', 'call-value']))
        k = draw(big)
        if route.endswith('value'):
            if f > w // 2:
                f = draw(st.sampled_from([0, 1, w // 2]))
            k = k >> f
        return {'check': 'scalar', 'fmt': [s, w, f], 'overflow': overflow, 'k': k, 'route': route}
    if kind == 'string':
        return {'check': 'string', 'fmt': list(fmt), 'overflow': overflow, 'k': draw(st.integers(lo, hi))}
    if kind == 'bitwise':
        sy = draw(st.booleans())
        loy, hiy = M.rng(sy, w)
        return {'check': 'bitwise', 'fx': list(fmt), 'fy': [sy, w, 0], 'kx': draw(st.integers(lo, hi)), 'ky': draw(st.integers(loy, hiy))}
    n = draw(st.integers(1, 6))
    small = st.integers(-100, 100) if s else st.integers(0, 100)
    codes = [draw(st.one_of(big, small)) for _ in range(n)]
    how = draw(st.sampled_from(['list-raw', 'object-raw', 'list-value', 'setitem-raw', 'setitem-value']))
    if how.endswith('value'):
        if f > w // 2:
            f = 0
        codes = [k >> f for k in codes]
    return {'check': 'array', 'fmt': [s, w, f], 'overflow': overflow, 'codes': codes, 'how': how}


def body(ctx, case):
    nt = False
    if case['check'] == 'scalar':
        fmt = tuple(case['fmt'])
        r = int(case['k']) << fmt[2] if case['route'].endswith('value') else int(case['k'])
        nt = classify_code(ctx, r, fmt)
    elif case['check'] == 'array':
        fmt = tuple(case['fmt'])
        ctx.cls('array')
        mags = [abs(int(k)) for k in case['codes']]
        if mags and max(mags) >= (1 << 63) and min(mags) < (1 << 53):
            ctx.cls('array-mixed')
        nt = any(classify_code(ctx, int(k), fmt) for k in case['codes'])
    else:
        nt = True
    if nt:
        ctx.nontrivial(('c18', repr(sorted((k, repr(v)) for k, v in case.items()))))
    ctx.sample(case, nt)
    CHECKS[case['check']](ctx, case)


def task_hyp(ctx, n):
    run_given(ctx, st_case(), body, n, ctx.task_seed)


def tasks(tier, scale=1.0):
    out = []
    nrand = 4 if tier == 'quick' else 150
    for i, w in enumerate(GRID_W):
        out.append(('grid-w%d' % w, 'task_grid', {'words': [w], 'nrand': nrand, 'seed': 1000 + i}))
    out.append(('extprec', 'task_extprec', {}))
    nh = int((1500 if tier == 'quick' else 50000) * scale)
    out += [('hyp-%d' % i, 'task_hyp', {'n': nh}) for i in range(6)]
    return out
