#!/venv/bin/python
"""Re-run the checks against every kept seeded change (seeded/<name>/patch.diff).

For each change: copy /repo/fxpmath to a scratch directory outside /repo and /verif, apply the patch there, run the
named quick checks with FXP_REPO=<scratch>, delete the scratch copy.  Prints a detection matrix and writes
seeded/RESULTS.json.  (Equivalent to `git -C /repo apply patch.diff; ./check ...; git -C /repo checkout -- .` but does
not touch /repo, so background runs are not disturbed.)

usage: tools/seeded_run.py [--only NAME] [--all-props]"""
import argparse, glob, json, os, shutil, subprocess, sys, tempfile, time

HERE = os.path.dirname(os.path.dirname(os.path.abspath(__file__)))
ALL = ['C%02d' % i for i in range(1, 21)]


def main():
    ap = argparse.ArgumentParser()
    ap.add_argument('--only')
    ap.add_argument('--all-props', action='store_true', help='run all 20 checks against each change (slow)')
    a = ap.parse_args()
    out = {}
    for d in sorted(glob.glob(os.path.join(HERE, 'seeded', '*', 'patch.diff'))):
        name = os.path.basename(os.path.dirname(d))
        if a.only and a.only not in name:
            continue
        meta = json.load(open(os.path.join(os.path.dirname(d), 'meta.json')))
        props = ALL if a.all_props else sorted(set([meta['breaks_property']] + list(meta.get('check_results', {}))))
        tmp = tempfile.mkdtemp(prefix='fxseed_')
        try:
            shutil.copytree('/repo/fxpmath', os.path.join(tmp, 'fxpmath'))
            r = subprocess.run(['patch', '-p1', '-s', '-i', d], cwd=tmp, capture_output=True, text=True)
            if r.returncode != 0:
                print('%-44s PATCH DOES NOT APPLY: %s' % (name, (r.stdout + r.stderr)[:200]))
                out[name] = {'error': 'patch does not apply to the current tree'}
                continue
            imp = subprocess.run(['/venv/bin/python', '-c', 'import fxpmath'], cwd='/tmp', env=dict(os.environ, PYTHONPATH=tmp), capture_output=True, text=True)
            if imp.returncode != 0:
                print('%-44s PATCHED TREE DOES NOT IMPORT: %s' % (name, imp.stderr.strip().splitlines()[-1][:120]))
                out[name] = {'error': 'patched tree does not import'}
                continue
            rd = subprocess.run(['/venv/bin/python', os.path.join(os.path.dirname(d), 'demo.py')], cwd=tmp,
                                env=dict(os.environ, PYTHONPATH=tmp), capture_output=True, text=True)
            res = {'demo_exit': rd.returncode}
            for p in props:
                t0 = time.time()
                rc = subprocess.run([os.path.join(HERE, 'check'), p, '--tier', 'quick'], capture_output=True, text=True,
                                    env=dict(os.environ, FXP_REPO=tmp, VERIF_NO_EVIDENCE='1', VERIF_NO_SHRINK='1'))
                vio = sum(1 for l in rc.stdout.splitlines() if l.startswith('VIOLATION'))
                import re
                hits = sum(int(m) for m in re.findall(r'signature: .*\(x(\d+)\)', rc.stdout))
                res[p] = {'exit': rc.returncode, 'violations': vio, 'failing_cases': hits, 'wall_s': round(time.time() - t0, 1)}
            out[name] = res
            det = [p for p in props if res[p]['exit'] == 1 and res[p]['violations'] > 0]
            print('%-44s demo_exit=%d breaks=%s detected_by=%s' % (name, rd.returncode, meta['breaks_property'],
                                                                    ['%s(x%d)' % (p, res[p]['failing_cases']) for p in det]))
            sys.stdout.flush()
        finally:
            shutil.rmtree(tmp, ignore_errors=True)
    path = os.path.join(HERE, 'seeded', os.environ.get('SEEDED_OUT', 'RESULTS.json'))
    if a.only and os.path.exists(path):
        prev = json.load(open(path)).get('results', {})      # partial run: keep the other entries
        prev.update(out)
        out = prev
    json.dump({'seed': os.environ.get('VERIF_SEED', '1'), 'results': out}, open(path, 'w'), indent=1)
    return 0


if __name__ == '__main__':
    sys.exit(main())
