"""C02 - every produced object is well-formed: codes in range, metadata consistent."""
from fractions import Fraction
import numpy as np
from hypothesis import strategies as st

from .. import model as M
from .. import common as C
from ..runner import run_given, run_machine
from ..stateful import Mismatch, build_machine, run_history
from .c04 import resolve_rel

PROPERTY = 'C02'
RULE = ("Random programs (Hypothesis rule-based state machine, JSON-replayable) of public operations over a pool of core-domain objects: construct (sized / inferred / dtype= / like=), call, set_val, indexed assignment, "
        "resize (sizes / dtype), like(), deepcopy, +,-,* with every sizing policy and with constants, /,//,% (non-zero divisor), unary -,+,abs, << >> in the three shifting modes, ~ & | ^ (object or int mask), "
        "indexing/slicing, sum/cumsum/max/min/sort/transpose/clip/diagonal/trace/dot. After every step the result and every live object must satisfy: integer codes inside the format's range, "
        "n_int == n_word-n_frac-sign, upper/lower/precision == hi*2^-f, lo*2^-f, 2^-f (through scale and bias), dtype string == the spelling of (signed,n_word,n_frac[,complex]) in the configured notation, "
        "status record with its four keys. Second, non-stateful check: saturation of float inputs of any finite magnitude and python integers up to 2^1000 into n_frac>=0 formats stores hi iff input>upper and lo iff input<lower "
        "(never the opposite bound). Third check (accumulator): an object that is its own config.op_out / op_out_like target, and the objects derived from it by like= / template= / indexing, are well-formed, usable in arithmetic, and refer to themselves rather than to their source. Non-trivial = object produced by an operation (not a constructor) whose operands were at/near a range end, or a saturation input beyond +-2^63; distinct = distinct programs / inputs.")
ASSUMPTIONS = ['operands are kept in core-domain formats (objects with n_word>52 or complex values are checked but not re-inserted)',
               'steps whose documented result word is < 1 are rejected by the library (ValueError) and are skipped and counted by the generator']
EXHAUSTIVE = False
REQUIRED_CLASSES = {'op:arith': 500, 'op:shift': 200, 'op:bitwise': 200, 'op:reduce': 200, 'op:resize': 200, 'op:index': 100, 'op:construct': 300,
                    'sat:float-huge': 500, 'sat:int-huge': 500, 'sat:container-huge': 300, 'objects-checked': 5000, 'op:npgeneric': 150, 'accumulator': 300, 'wide-result-write': 1000}


def check_object(x, where):
    """The C02 invariant on one object.  Raises Mismatch."""
    F = C.Fxp()
    if not isinstance(x, F):
        raise Mismatch(where + '/not-fxp', {'type': str(type(x))})
    s, w, f = bool(x.signed), x.n_word, x.n_frac
    lo, hi = M.rng(s, w)
    a = np.asarray(x.val)
    flat = a.ravel().tolist() if a.ndim else [a.item()]
    cplx = (x.vdtype == complex) or a.dtype.kind == 'c'
    try:
        if cplx:
            parts = []
            for e in flat:
                e = complex(e)
                parts += [C.to_int(e.real), C.to_int(e.imag)]
        else:
            parts = [C.to_int(e) for e in flat]
    except ValueError as e:
        raise Mismatch(where + '/non-integer-code', {'error': str(e), 'dtype': x.dtype})
    bad = [k for k in parts if not lo <= k <= hi]
    if bad:
        raise Mismatch(where + '/code-out-of-range', {'codes': [str(k) for k in bad[:4]], 'dtype': x.dtype, 'range': [str(lo), str(hi)]})
    if x.n_int != w - f - (1 if s else 0):
        raise Mismatch(where + '/n_int', {'n_int': x.n_int, 'dtype': x.dtype})
    sc, bi = Fraction(x.scale), Fraction(x.bias)
    base = {'upper': M.value_of(hi, f), 'lower': M.value_of(lo, f), 'precision': M.pow2(-f)}
    want = {'upper': sc * base['upper'] + bi, 'lower': sc * base['lower'] + bi, 'precision': sc * base['precision']}
    for name, wv in want.items():
        gv = getattr(x, name)
        if cplx:
            # an object holding complex values reports the limit in both components (mapped through scale and bias as one complex number)
            ok = isinstance(gv, (complex, np.complexfloating)) and complex(gv) == float(sc) * complex(float(base[name]), float(base[name])) + (float(bi) if name != 'precision' else 0.0)
        else:
            # an object holding real values reports real limits, whatever it held before
            ok = not isinstance(gv, (complex, np.complexfloating)) and float(gv) == float(wv)
        if not ok:
            raise Mismatch('%s/%s' % (where, name), {'expected': str(wv), 'got': str(gv), 'dtype': x.dtype})
    spelled = M.dtype_str(s, w, f, cplx, x.config.dtype_notation)
    if x.dtype != spelled:
        raise Mismatch(where + '/dtype-string', {'expected': spelled, 'got': x.dtype})
    if not all(k in x.status for k in ('overflow', 'underflow', 'inaccuracy', 'extended_prec')):
        raise Mismatch(where + '/status-keys', {'status': dict(x.status)})


class World:
    MAX = 5

    def __init__(self):
        self.pool = []
        self.checked = 0
        self.skipped = {}
        self.nontrivial = False

    def pick(self, i):
        # indices 6 and 7 address the most recently produced object, so that chains of operations on one object
        # (derive -> resize -> write ...) are generated often; the others address the pool modulo its size
        if not self.pool:
            return None
        return self.pool[-1] if i % 8 >= 6 else self.pool[i % len(self.pool)]

    def skip(self, why):
        self.skipped[why] = self.skipped.get(why, 0) + 1

    def produced(self, z, where, reinsert=True):
        check_object(z, where)
        self.checked += 1
        a = np.asarray(z.val)
        if reinsert and 1 <= z.n_word <= 52 and -8 <= z.n_frac <= z.n_word + 8 and a.dtype.kind != 'c' and z.vdtype != complex and a.size <= 9 \
                and z.scale == 1 and z.bias == 0:
            if len(self.pool) >= self.MAX:
                self.pool.pop(0)
            self.pool.append(z)

    def apply(self, op):
        getattr(self, 'op_' + op['op'])(op)
        self.check_live(op['op'])
        # follow-up mutations applied at once to the newest object (index 7): chains such as
        # derive -> resize in place -> indexed write are what exposes state left behind by an operation
        for f in op.get('then') or []:
            getattr(self, 'op_' + f['op'])(dict(f, i=7))
            self.check_live(op['op'] + '+' + f['op'])

    def check_live(self, where):
        for i, x in enumerate(self.pool):
            check_object(x, where + '/live-object')
            self.checked += 1

    def near_end(self, x):
        lo, hi = M.rng(bool(x.signed), x.n_word)
        fl = C.flat(C.codes(x))
        return any(k in (lo, hi, lo + 1, hi - 1) for k in fl)

    def values_for(self, fmt, rel, shape):
        x4s = resolve_rel(fmt, rel)
        vs = [float(C.v_from_x4(x, fmt[2])) for x in x4s]
        if shape == 0:
            return vs[0]
        n = shape if isinstance(shape, int) else shape[0] * shape[1]
        vs = (vs * n)[:n]
        arr = np.array(vs)
        return arr if isinstance(shape, int) else arr.reshape(shape)

    # ---- constructors
    def op_construct(self, op):
        F = C.Fxp()
        fmt, modes = tuple(op['fmt']), tuple(op['modes'])
        val = self.values_for(fmt, op['rel'], op['shape'] if not isinstance(op['shape'], list) else tuple(op['shape']))
        how = op['how']
        kw = dict(rounding=modes[0], overflow=modes[1])
        if how == 'sized':
            z = F(val, fmt[0], fmt[1], fmt[2], **kw)
        elif how == 'dtype':
            z = F(val, dtype=M.dtype_str(*fmt), **kw)
        elif how == 'inferred':
            lim = float(2 ** 20)
            v2 = np.clip(val, -lim, lim)
            z = F(v2 if fmt[0] else np.abs(v2), signed=fmt[0])
        elif how == 'n_int':
            z = F(val, fmt[0], n_int=max(fmt[1] - fmt[2] - int(fmt[0]), 0), n_frac=max(fmt[2], 0), **kw)
        elif how == 'Q':
            z = F(val, fmt[0], fmt[1], fmt[2], dtype_notation='Q', **kw)
        elif how == 'complex':
            cv = val * (1 + 1j) if fmt[1] <= 40 else val
            z = F(cv, fmt[0], fmt[1], fmt[2], **kw)
            check_object(z, 'construct/complex')
            if fmt[1] <= 40:
                z2 = z.deepcopy()
                z2(val)                      # a real value written over a complex one
                check_object(z2, 'construct/complex-then-real-write')
                z3 = F(val, fmt[0], fmt[1], fmt[2], **kw)
                z3(cv)                       # and a complex value written over a real one
                check_object(z3, 'construct/real-then-complex-write')
        elif how == 'scaled':
            z = F(val, fmt[0], fmt[1], fmt[2], scale=2, bias=0.5, **kw) if fmt[1] <= 30 else F(val, fmt[0], fmt[1], fmt[2], **kw)
            if fmt[1] <= 30:
                # scale / bias given together with like= and no size: the limits must follow the new affine map, not the model's
                plain = F(val, fmt[0], fmt[1], fmt[2], **kw)
                check_object(F(val, like=plain, scale=2, bias=1), 'construct/like+scale')
                check_object(F(val, like=z, scale=1, bias=0), 'construct/like-scaled+unit-scale')
                check_object(F(val, like=z, bias=-3), 'construct/like-scaled+bias')
        else:
            t = self.pick(op['i'])
            if t is None:
                return self.skip('empty-pool')
            z = F(val, like=t)
        self.produced(z, 'construct/' + how)

    # ---- writes
    def op_write(self, op):
        x = self.pick(op['i'])
        if x is None:
            return self.skip('empty-pool')
        fmt = C.fmt_of(x)
        shape = C.shape_of(x)
        route = op['route']
        if route == 'setitem' and len(shape) >= 1:
            idx = op['idx'] % shape[0]
            sub = self.values_for(fmt, op['rel'], 0 if len(shape) == 1 else shape[1])
            x[idx] = sub
        else:
            val = self.values_for(fmt, op['rel'], 0 if shape == () else (shape[0] if len(shape) == 1 else shape))
            if route == 'call':
                x(val)
            elif route == 'equal':
                x.equal(val)
            else:
                x.set_val(val)
        check_object(x, 'write/' + route)

    def op_write_int(self, op):
        """python integers of any size under saturate/wrap (n_frac>=0 only)."""
        x = self.pick(op['i'])
        if x is None or x.n_frac < 0 or C.shape_of(x) != ():
            return self.skip('write_int-precondition')
        v = int(op['v'])
        x(v) if op['route'] == 'call' else x.set_val(v)
        check_object(x, 'write_int')
        if x.config.overflow == 'saturate':
            lo, hi = M.rng(bool(x.signed), x.n_word)
            sc = v << x.n_frac
            k = C.codes(x)
            if (sc > hi and k != hi) or (sc < lo and k != lo):
                raise Mismatch('write_int/wrong-bound', {'v_bits': v.bit_length(), 'neg': v < 0, 'code': k, 'dtype': x.dtype})

    # ---- conversions
    def op_resize(self, op):
        x = self.pick(op['i'])
        if x is None:
            return self.skip('empty-pool')
        fmt = tuple(op['fmt'])
        y = x.deepcopy()
        if op.get('dtype'):
            y.resize(dtype=M.dtype_str(*fmt))
        else:
            y.resize(bool(fmt[0]), fmt[1], fmt[2])
        self.nontrivial = self.nontrivial or self.near_end(x)
        self.produced(y, 'resize')

    def op_like(self, op):
        x, t = self.pick(op['i']), self.pick(op['j'])
        if x is None or t is None:
            return self.skip('empty-pool')
        z = x.like(t) if op['how'] == 'like' else (x.deepcopy() if op['how'] == 'deepcopy' else C.Fxp()(x, like=t))
        self.produced(z, 'like/' + op['how'])

    # ---- arithmetic
    def compat(self, x, y):
        sx, sy = C.shape_of(x), C.shape_of(y)
        return sx == sy or sx == () or sy == ()

    def op_arith(self, op):
        import fxpmath
        x, y = self.pick(op['i']), self.pick(op['j'])
        if x is None or y is None or not self.compat(x, y):
            return self.skip('arith-shape')
        name, sizing = op['name'], op['sizing']
        fx, fy = C.fmt_of(x), C.fmt_of(y)
        opt = {'add': M.fmt_add, 'sub': M.fmt_add, 'mul': M.fmt_mul, 'truediv': M.fmt_truediv, 'floordiv': M.fmt_floordiv, 'mod': M.fmt_mod}[name](fx, fy)
        ft = M.fmt_sizing(sizing, fx, fy, opt)
        if ft[1] < 1 or opt[1] < 1:
            return self.skip('non-positive-result-word')
        if ft[1] > 120 or abs(fx[2] - fy[2]) > 60:
            return self.skip('very-wide')
        if name in ('truediv', 'floordiv', 'mod') and any(k == 0 for k in C.flat(C.codes(y))):
            return self.skip('zero-divisor')
        z = getattr(fxpmath, name)(x, y, sizing=sizing, method=op['method'])
        if C.fmt_of(z) != (bool(ft[0]), ft[1], ft[2]):
            raise Mismatch('arith/%s/%s/format' % (name, sizing), {'expected': ft, 'got': C.fmt_of(z)})
        self.nontrivial = self.nontrivial or self.near_end(x) or self.near_end(y)
        self.produced(z, 'arith/%s/%s' % (name, sizing))

    def op_const(self, op):
        x = self.pick(op['i'])
        if x is None:
            return self.skip('empty-pool')
        c = Fraction(op['c'][0], 1 << op['c'][1])
        cf = float(c) if c.denominator != 1 else int(c)
        name = op['name']
        if name in ('truediv', 'floordiv', 'mod'):
            return self.skip('const-division')       # constant converted 'same' may quantize to zero: division by zero
        f = {'add': lambda a, b: a + b, 'sub': lambda a, b: a - b, 'mul': lambda a, b: a * b}[name]
        z = f(x, cf) if op['side'] == 'right' else f(cf, x)
        self.nontrivial = self.nontrivial or self.near_end(x)
        self.produced(z, 'const/%s/%s' % (name, op['side']))

    def op_unary(self, op):
        x = self.pick(op['i'])
        if x is None:
            return self.skip('empty-pool')
        z = -x if op['name'] == 'neg' else +x if op['name'] == 'pos' else abs(x)
        self.nontrivial = self.nontrivial or self.near_end(x)
        self.produced(z, 'unary/' + op['name'])

    def op_shift(self, op):
        x = self.pick(op['i'])
        if x is None:
            return self.skip('empty-pool')
        n = op['n']
        if x.n_word + n > 60:
            return self.skip('shift-too-wide')
        old = x.config.shifting
        x.config.shifting = op['shifting']
        try:
            z = (x << n) if op['dir'] == 'l' else (x >> n)
        finally:
            x.config.shifting = old
        self.nontrivial = self.nontrivial or self.near_end(x)
        self.produced(z, 'shift/%s/%s' % (op['dir'], op['shifting']))

    def op_bitwise(self, op):
        x = self.pick(op['i'])
        if x is None:
            return self.skip('empty-pool')
        name = op['name']
        if name == 'inv':
            z = ~x
        else:
            if op.get('mask') is not None:
                y = int(op['mask'])
            else:
                y = self.pick(op['j'])
                if y is None or y.n_word != x.n_word or C.shape_of(y) != ():
                    return self.skip('bitwise-operand')
            z = (x & y) if name == 'and' else (x | y) if name == 'or' else (x ^ y)
        self.nontrivial = self.nontrivial or self.near_end(x)
        self.produced(z, 'bitwise/' + name)

    def op_index(self, op):
        x = self.pick(op['i'])
        if x is None or C.shape_of(x) == ():
            return self.skip('index-scalar')
        n = C.shape_of(x)[0]
        a = op['a'] % n
        z = x[a] if not op['slice'] else x[a:max(a + 1, op['b'] % (n + 1))]
        # slices stay in the pool as live objects: they are views of their parent, so a later write through one of
        # them (possibly after it was resized) must leave BOTH objects well-formed
        self.produced(z, 'index', reinsert=bool(op['slice']))

    def op_view(self, op):
        x = self.pick(op['i'])
        if x is None or C.shape_of(x) == ():
            return self.skip('view-scalar')
        z = x.T if op['how'] == 'T' else x.copy() if op['how'] == 'copy' else x.flatten()
        self.produced(z, 'view/' + op['how'])

    def op_resize_inplace(self, op):
        """resize the pooled object itself (it may be a view or have views), keeping the value when representable"""
        x = self.pick(op['i'])
        if x is None:
            return self.skip('empty-pool')
        fmt = C.fmt_of(x)
        grow = op['grow']
        sg = (not fmt[0]) if op.get('flip') else fmt[0]
        x.resize(sg, min(fmt[1] + grow, 52), fmt[2] + (op['dfrac'] if fmt[2] + op['dfrac'] <= min(fmt[1] + grow, 52) + 8 else 0))
        check_object(x, 'resize_inplace')

    def op_reduce(self, op):
        x = self.pick(op['i'])
        if x is None:
            return self.skip('empty-pool')
        shape = C.shape_of(x)
        name = op['name']
        if shape == ():
            return self.skip('reduce-scalar')
        if name in ('diagonal', 'trace') and len(shape) != 2:
            return self.skip('reduce-needs-2d')
        if x.n_frac > x.n_word or x.n_frac < 0:
            if name in ('cumprod',):
                return self.skip('cumprod-known-finding-domain')
        size = int(np.prod(shape))
        if name in ('prod', 'cumprod') and size * x.n_word > 60:
            return self.skip('prod-too-wide')
        axis = None
        if name in ('sum', 'cumsum', 'max', 'min', 'prod', 'cumprod') and op.get('axis') is not None:
            axis = op['axis'] % len(shape)
        kw = {}
        if name in ('sum', 'cumsum', 'max', 'min', 'prod', 'cumprod'):
            kw['axis'] = axis
        if name == 'sort':
            z = np.sort(x)
        elif name == 'clip':
            lo_v, hi_v = float(x.lower) / 2, float(x.upper) / 2
            z = np.clip(x, lo_v, hi_v) if op['numpy'] else x.clip(lo_v, hi_v)
        elif name == 'dot':
            y = self.pick(op['j'])
            if y is None or C.shape_of(y) != shape or len(shape) != 1:
                return self.skip('dot-operand')
            z = np.dot(x, y) if op['numpy'] else x.dot(y)
        elif op['numpy']:
            z = getattr(np, name)(x, **kw)
        else:
            z = getattr(x, name)(**kw)
        self.nontrivial = self.nontrivial or self.near_end(x)
        self.produced(z, 'reduce/' + name)

    def op_npgeneric(self, op):
        """NumPy functions fxpmath does not implement itself (they are computed on the values and wrapped back into a fixed-point
        object) and the statistics methods: whatever they return as a fixed-point object must be well-formed."""
        x = self.pick(op['i'])
        if x is None:
            return self.skip('empty-pool')
        name = op['name']
        F = C.Fxp()
        try:
            if name in ('maximum', 'minimum'):
                y = self.pick(op['j'])
                if y is None or C.shape_of(y) not in ((), C.shape_of(x)):
                    return self.skip('npgeneric-operand')
                z = getattr(np, name)(x, y)
            elif name in ('mean', 'std', 'var') and not op['numpy']:
                if C.shape_of(x) == ():
                    return self.skip('reduce-scalar')
                z = getattr(x, name)()
            else:
                z = getattr(np, name)(x)
        except Exception:                                   # noqa: BLE001  (rejection is not an ill-formed object)
            return self.skip('npgeneric-raised')
        if isinstance(z, F):
            self.produced(z, 'npgeneric/' + name, reinsert=False)
        else:
            self.skip('npgeneric-not-fxp')

    def summarize(self, ctx, trace):
        groups = {'construct': 'construct', 'write': 'write', 'write_int': 'write', 'resize': 'resize', 'like': 'like', 'arith': 'arith', 'const': 'arith',
                  'unary': 'arith', 'shift': 'shift', 'bitwise': 'bitwise', 'index': 'index', 'reduce': 'reduce', 'npgeneric': 'npgeneric', 'view': 'index',
                  'resize_inplace': 'resize'}
        for op in trace:
            ctx.cls('op:' + groups[op['op']])
        for k, v in self.skipped.items():
            ctx.cls('skipped:' + k, v)
        ctx.cls('objects-checked', self.checked)
        if self.nontrivial:
            ctx.nontrivial(('prog', repr(trace)))
        ctx.sample({'check': 'program', 'steps': trace[:10]}, self.nontrivial)


def check_program(ctx, case):
    return run_history(ctx, World, case)


def check_saturate(ctx, case):
    """Out-of-range input of any magnitude under saturate is stored as the bound on its own side."""
    fmt = tuple(case['fmt'])
    s, w, f = fmt
    F = C.Fxp()
    ctx.ev()
    if case['kind'] == 'float':
        v = float.fromhex(case['v'])
        exact = Fraction(v)
    else:
        v = int(case['v'])
        exact = Fraction(v)
    route = case['route']
    lo, hi = M.rng(s, w)
    upper, lower = M.value_of(hi, f), M.value_of(lo, f)
    cont = case.get('cont', 'scalar')
    sig = 'saturate/%s/%s/%s' % (case['kind'], cont, route)
    if cont != 'scalar':
        return check_saturate_container(ctx, case, v, exact, sig)

    def do():
        kw = dict(rounding=case['rounding'], overflow='saturate')
        if route == 'ctor':
            return F(v, s, w, f, **kw)
        x = F(None, s, w, f, **kw)
        if route == 'call':
            x(v)
        elif route == 'set_val':
            x.set_val(v)
        else:
            x = F(np.zeros(2), s, w, f, **kw)
            x[1] = v
            y = x[1]
            check_object(x, sig)
            return y
        return x
    ok, x = ctx.guard(case, do, sig_prefix=sig + '/')
    if not ok:
        return
    try:
        check_object(x, sig)
    except Mismatch as m:
        ctx.fail(m.sig, case, m.detail)
        return
    k = C.codes(x)
    if exact > upper:
        if k != hi:
            ctx.fail(sig + '/above-upper-not-hi', case, {'code': k, 'hi': hi, 'dtype': x.dtype})
    elif exact < lower:
        if k != lo:
            ctx.fail(sig + '/below-lower-not-lo', case, {'code': k, 'lo': lo, 'dtype': x.dtype})
    else:
        want = M.quant(exact, s, w, f, case['rounding'], 'saturate')[0]
        if k != want and M.is_double(M.scaled(exact, f)):
            ctx.fail(sig + '/in-range-value', case, {'code': k, 'expected': want})


def check_saturate_container(ctx, case, v, exact, sig):
    """The out-of-range input travels in a list / tuple / array next to ordinary in-range values."""
    fmt = tuple(case['fmt'])
    s, w, f = fmt
    F = C.Fxp()
    lo, hi = M.rng(s, w)
    others = [int(k) for k in case.get('others', [0, 1])]
    elems = [others[0], v] + others[1:]
    exacts = [Fraction(others[0]), exact] + [Fraction(o) for o in others[1:]]
    cont = case['cont']
    if case['kind'] == 'float':
        elems = [float(e) for e in elems]
    obj = list(elems) if cont == 'list' else tuple(elems) if cont == 'tuple' else \
        (np.array(elems, dtype=object) if (cont == 'object-array' or case['kind'] == 'int' and any(abs(int(e)) >= 1 << 63 for e in elems)) else np.array(elems))
    route = case['route']

    def do():
        kw = dict(rounding=case['rounding'], overflow='saturate')
        if route in ('ctor', 'setitem'):
            return F(obj, s, w, f, **kw)
        x = F(None, s, w, f, **kw)
        return x(obj) if route == 'call' else x.set_val(obj)
    ok, x = ctx.guard(case, do, sig_prefix=sig + '/')
    if not ok:
        return
    try:
        check_object(x, sig)
        ks = C.flat(C.codes(x))
    except Mismatch as m:
        ctx.fail(m.sig, case, m.detail)
        return
    upper, lower = M.value_of(hi, f), M.value_of(lo, f)
    for i, (e, k) in enumerate(zip(exacts, ks)):
        if e > upper and k != hi:
            ctx.fail(sig + '/above-upper-not-hi', case, {'index': i, 'code': k, 'hi': hi, 'dtype': x.dtype})
            return
        if e < lower and k != lo:
            ctx.fail(sig + '/below-lower-not-lo', case, {'index': i, 'code': k, 'lo': lo, 'dtype': x.dtype})
            return
        if lower <= e <= upper and M.is_double(M.scaled(e, f)) and abs(M.scaled(e, f)) < 2 ** 62:
            want = M.quant(e, s, w, f, case['rounding'], 'saturate')[0]
            if k != want:
                ctx.fail(sig + '/in-range-neighbour-changed', case, {'index': i, 'code': k, 'expected': want})
                return


def check_wide_result_write(ctx, case):
    """An object produced by * or + of two core-domain operands whose optimal word is 54..63 bits, then written with float
    values at and beyond its limits (which are not exact doubles there): codes stay in range, and under saturate every
    out-of-range element lands on the bound of its own side."""
    fx, fy = tuple(case['fx']), tuple(case['fy'])
    F = C.Fxp()
    ctx.ev()
    route, ovf = case['route'], case['overflow']
    sig = 'wide-result-write/%s/%s/%s' % (case['op'], route, ovf)

    def do():
        x = F(0, fx[0], fx[1], fx[2], rounding=case['rounding'], overflow=ovf)
        y = F(0, fy[0], fy[1], fy[2])
        return x * y if case['op'] == 'mul' else x + y
    ok, z = ctx.guard(case, do, sig_prefix=sig + '/')
    if not ok:
        return
    s, w, f = C.fmt_of(z)
    if not 54 <= w <= 63:
        ctx.cls('wide-result-write:skipped-word')
        return
    ctx.cls('wide-result-write')
    lo, hi = M.rng(s, w)
    upper, lower = M.value_of(hi, f), M.value_of(lo, f)
    lsb = M.value_of(1, f)
    pool = {'upper+lsb': upper + lsb, 'lower-lsb': lower - lsb, 'upper+half': upper + lsb / 2, '2upper': 2 * (upper + lsb), '-2upper': -2 * (upper + lsb),
            'huge': Fraction(10) ** 300, '-huge': -Fraction(10) ** 300, 'quarter': (upper + lsb) / 4, 'zero': Fraction(0), 'lower': lower,
            'upper-ulp': Fraction(float(upper + lsb) * (1 - 2.0 ** -53)), 'one-lsb': lsb}
    exacts = [pool[n] for n in case['vals'] if not (pool[n] < 0 and not s and n in ('lower-lsb',) and False)]
    exacts = [e for e in exacts if Fraction(float(e)) == e]
    if not exacts:
        return
    vals = [float(e) for e in exacts]

    def write():
        if route == 'set_val':
            z.set_val(np.array(vals))
        elif route == 'call':
            z(list(vals))
        elif route == 'scalar':
            z(vals[-1])
        else:
            z.set_val(np.zeros(len(vals)))
            z[:] = np.array(vals)
        return z
    ok, z = ctx.guard(case, write, sig_prefix=sig + '/')
    if not ok:
        return
    try:
        check_object(z, sig)
        ks = C.flat(C.codes(z))
    except Mismatch as m:
        ctx.fail(m.sig, case, m.detail)
        return
    if route == 'scalar':
        exacts = exacts[-1:]
    if ovf != 'saturate':
        return
    for i, (e, k) in enumerate(zip(exacts, ks)):
        if e > upper and k != hi:
            ctx.fail(sig + '/above-upper-not-hi', case, {'index': i, 'code': k, 'hi': hi, 'dtype': z.dtype})
            return
        if e < lower and k != lo:
            ctx.fail(sig + '/below-lower-not-lo', case, {'index': i, 'code': k, 'lo': lo, 'dtype': z.dtype})
            return
        if lower <= e <= upper and M.is_double(M.scaled(e, f)) and abs(M.scaled(e, f)) < 2 ** 62:
            want = M.quant(e, s, w, f, case['rounding'], 'saturate')[0]
            if k != want:
                ctx.fail(sig + '/in-range-value', case, {'index': i, 'code': k, 'expected': want})
                return


def check_accumulator(ctx, case):
    """An object that is its own result target (config.op_out / op_out_like = itself) and objects derived from it with
    like= / template= / indexing: every one is well-formed, usable, and refers to ITSELF, not to the object it came from."""
    fmt = tuple(case['fmt'])
    s, w, f = fmt
    F = C.Fxp()
    ctx.ev()
    how, derive = case['how'], case['derive']
    sig = 'accumulator/%s/%s' % (how, derive)
    v0, v1, c = (C.v_from_x4(int(x), f) for x in case['x4s'])

    def do():
        acc = F(float(v0), s, w, f)
        setattr(acc.config, how, acc)
        r = acc + float(c)
        check_object(acc, sig + '/accumulator')
        check_object(r, sig + '/result')
        if how == 'op_out' and r is not acc:
            raise Mismatch(sig + '/result-not-delivered-into-op_out', {})
        before = (C.flat(C.codes(acc)), dict(acc.status))
        if derive == 'like':
            y = F(float(v1), like=acc)
        elif derive == 'template':
            y = F(float(v1), template=acc)
        else:
            arr = F([float(v0), float(v1)], s, w, f)
            setattr(arr.config, how, arr)
            y = arr[1]
            acc, before = arr, (C.flat(C.codes(arr)), dict(arr.status))
        check_object(y, sig + '/derived')
        tgt = getattr(y.config, how)
        if derive != 'index' and tgt is not y:
            raise Mismatch(sig + '/derived-target-is-not-the-derived-object', {'is_source': tgt is acc})
        z = y + float(c)
        check_object(z, sig + '/derived-result')
        check_object(y, sig + '/derived-after-use')
        if derive != 'index' and (C.flat(C.codes(acc)), dict(acc.status)) != before:
            raise Mismatch(sig + '/source-changed-by-derived-arithmetic', {})
        return None
    try:
        ctx.guard(case, do, sig_prefix=sig + '/')
    except Mismatch as e:
        ctx.fail(e.sig, case, e.detail)


CHECKS = {'program': check_program, 'saturate': check_saturate, 'accumulator': check_accumulator, 'wide-result-write': check_wide_result_write}


def replay(ctx, case):
    CHECKS[case['check']](ctx, case)


# ---------------------------------------------------------------- strategies
REL = st.lists(st.tuples(st.sampled_from(['hi', 'lo', 'zero', 'mid', 'far+', 'far-']), st.integers(-6, 6)).map(list), min_size=1, max_size=4)
IDX = st.integers(0, 7)


def op_strategies():
    fmt = C.st_fmt().map(list)
    small_fmt = C.st_fmt(max_w=16).map(list)
    shape = st.sampled_from([0, 0, 1, 3, 4, [2, 2], [2, 3]])
    ops = {
        'construct': st.fixed_dictionaries({'fmt': st.one_of(fmt, small_fmt), 'modes': C.st_modes().map(list), 'rel': REL, 'shape': shape,
                                            'how': st.sampled_from(['sized', 'sized', 'dtype', 'inferred', 'n_int', 'Q', 'like', 'complex', 'scaled']), 'i': IDX}),
        'write': st.fixed_dictionaries({'i': IDX, 'route': st.sampled_from(['call', 'set_val', 'equal', 'setitem']), 'rel': REL, 'idx': IDX}),
        'write_int': st.fixed_dictionaries({'i': IDX, 'route': st.sampled_from(['call', 'set_val']),
                                            'v': st.one_of(st.integers(-(1 << 70), 1 << 70), st.integers(-(1 << 1000), 1 << 1000),
                                                           st.sampled_from([1 << 63, (1 << 63) - 1, 1 << 64, -(1 << 63), -(1 << 63) - 1, (1 << 64) - 1]))}),
        'resize': st.fixed_dictionaries({'i': IDX, 'fmt': st.one_of(fmt, small_fmt), 'dtype': st.booleans()}),
        'like': st.fixed_dictionaries({'i': IDX, 'j': IDX, 'how': st.sampled_from(['like', 'deepcopy', 'like_kw'])}),
        'arith': st.fixed_dictionaries({'i': IDX, 'j': IDX, 'name': st.sampled_from(['add', 'sub', 'mul', 'truediv', 'floordiv', 'mod']),
                                        'sizing': st.sampled_from(['optimal', 'optimal', 'same', 'largest', 'smallest']), 'method': st.sampled_from(['raw', 'raw', 'repr'])}),
        'const': st.fixed_dictionaries({'i': IDX, 'name': st.sampled_from(['add', 'sub', 'mul']), 'side': st.sampled_from(['left', 'right']),
                                        'c': st.tuples(st.integers(-50, 50), st.integers(0, 4)).map(list)}),
        'unary': st.fixed_dictionaries({'i': IDX, 'name': st.sampled_from(['neg', 'pos', 'abs'])}),
        'shift': st.fixed_dictionaries({'i': IDX, 'n': st.integers(0, 8), 'dir': st.sampled_from(['l', 'r']), 'shifting': st.sampled_from(['expand', 'trunc', 'keep'])}),
        'bitwise': st.fixed_dictionaries({'i': IDX, 'j': IDX, 'name': st.sampled_from(['inv', 'and', 'or', 'xor']),
                                          'mask': st.one_of(st.none(), st.integers(-(1 << 20), 1 << 20))}),
        'index': st.fixed_dictionaries({'i': IDX, 'a': IDX, 'b': IDX, 'slice': st.sampled_from([True, True, True, False])}),
        'view': st.fixed_dictionaries({'i': IDX, 'how': st.sampled_from(['T', 'copy', 'flatten'])}),
        'resize_inplace': st.fixed_dictionaries({'i': IDX, 'grow': st.sampled_from([0, 0, 0, 1, 2, 4, 8]), 'dfrac': st.sampled_from([0, 0, 0, 1, -1]),
                                                 'flip': st.booleans()}),
        'reduce': st.fixed_dictionaries({'i': IDX, 'j': IDX, 'name': st.sampled_from(['sum', 'cumsum', 'max', 'min', 'sort', 'transpose', 'clip', 'diagonal', 'trace', 'dot', 'prod', 'cumprod']),
                                         'axis': st.one_of(st.none(), st.integers(0, 1)), 'numpy': st.booleans()}),
        'npgeneric': st.fixed_dictionaries({'i': IDX, 'j': IDX, 'numpy': st.booleans(),
                                            'name': st.sampled_from(['negative', 'absolute', 'square', 'maximum', 'minimum', 'mean', 'std', 'var', 'floor', 'ceil', 'sign', 'positive', 'rint'])}),
    }
    follow = st.lists(st.one_of(
        st.fixed_dictionaries({'op': st.just('resize_inplace'), 'grow': st.sampled_from([0, 1, 1, 2, 4, 8]), 'dfrac': st.sampled_from([0, 0, 0, 1, -1]),
                               'flip': st.sampled_from([False, False, False, True])}),
        st.fixed_dictionaries({'op': st.just('write'), 'route': st.sampled_from(['call', 'set_val', 'setitem', 'setitem']), 'rel': REL, 'idx': IDX}),
        st.fixed_dictionaries({'op': st.just('shift'), 'n': st.integers(0, 4), 'dir': st.sampled_from(['l', 'r']), 'shifting': st.sampled_from(['trunc', 'keep'])})),
        min_size=0, max_size=3)
    follow1 = follow.filter(lambda l: len(l) >= 1)
    for name in ('index', 'view', 'like', 'resize', 'construct', 'unary'):
        base = ops[name]
        ops[name] = st.tuples(base, follow1 if name in ('index', 'view') else follow).map(lambda t: dict(t[0], then=t[1]))
    ops['write#2'] = ops['write']
    ops['resize_inplace#2'] = ops['resize_inplace']
    ops['index#2'] = ops['index']
    ops['arith#2'] = ops['arith']
    ops['construct#2'] = ops['construct']
    ops['reduce#2'] = ops['reduce']
    return ops


_MACHINE = None


def machine():
    global _MACHINE
    if _MACHINE is None:
        ops = op_strategies()
        _MACHINE = build_machine(World, ops, 'program', init_strategy=('construct', ops['construct']))
    return _MACHINE


def task_machine(ctx, n, steps):
    run_machine(ctx, machine(), n, steps, ctx.task_seed)


@st.composite
def st_saturate(draw):
    fmt = draw(C.st_fmt(f_lo=0))
    kind = draw(st.sampled_from(['float', 'int']))
    if kind == 'float':
        v = draw(st.one_of(st.floats(allow_nan=False, allow_infinity=False), st.floats(min_value=2.0 ** 52, max_value=1.7e308),
                           st.floats(min_value=-1.7e308, max_value=-2.0 ** 52),
                           st.sampled_from([2.0 ** 63, -2.0 ** 63, 2.0 ** 64, -2.0 ** 64, 1e300, -1e300, 9.3e18, -9.3e18, 1.8446744073709552e19])))
        vv = float(v).hex()
    else:
        vv = draw(st.one_of(st.integers(-(1 << 1000), 1 << 1000), st.integers(-(1 << 66), 1 << 66),
                            st.sampled_from([1 << 63, (1 << 63) - 1, (1 << 63) + 1, 1 << 64, (1 << 64) - 1, -(1 << 63), -(1 << 63) - 1, -(1 << 64), 1 << 62])))
    return {'check': 'saturate', 'fmt': list(fmt), 'kind': kind, 'v': vv, 'route': draw(st.sampled_from(['ctor', 'call', 'set_val', 'setitem'])),
            'rounding': draw(st.sampled_from(C.ROUNDINGS)), 'cont': draw(st.sampled_from(['scalar', 'scalar', 'list', 'tuple', 'array', 'object-array'])),
            'others': [draw(st.integers(-2, 2)) if fmt[0] else draw(st.integers(0, 2)) for _ in range(draw(st.integers(1, 3)))]}


def body_saturate(ctx, case):
    if case['kind'] == 'float':
        big = abs(float.fromhex(case['v'])) >= 2.0 ** 63
        if big:
            ctx.cls('sat:float-huge')
    else:
        big = abs(int(case['v'])) >= 1 << 63
        if big:
            ctx.cls('sat:int-huge')
    if big:
        ctx.nontrivial(('sat', repr(sorted((k, repr(v)) for k, v in case.items()))))
        if case.get('cont', 'scalar') != 'scalar':
            ctx.cls('sat:container-huge')
    ctx.sample(case, big)
    check_saturate(ctx, case)


@st.composite
def st_accumulator(draw):
    fmt = draw(C.st_fmt(max_w=24, f_lo=0, f_hi_extra=0))
    return {'check': 'accumulator', 'fmt': list(fmt), 'how': draw(st.sampled_from(['op_out', 'op_out_like'])), 'derive': draw(st.sampled_from(['like', 'template', 'index'])),
            'x4s': [draw(C.st_x4(fmt, over=1)) for _ in range(3)]}


def body_accumulator(ctx, case):
    ctx.cls('accumulator')
    ctx.nontrivial(('acc', repr(sorted((k, repr(v)) for k, v in case.items()))))
    ctx.sample(case, True)
    check_accumulator(ctx, case)


def task_hyp_accumulator(ctx, n):
    run_given(ctx, st_accumulator(), body_accumulator, n, ctx.task_seed)


@st.composite
def st_wide_result_write(draw):
    op = draw(st.sampled_from(['mul', 'mul', 'add']))
    sx, sy = draw(st.booleans()), draw(st.booleans())
    if op == 'mul':
        wz = draw(st.integers(54, 63))
        wx = draw(st.integers(max(2, wz - 52), min(52, wz - 2)))
        wy = wz - wx
        fx, fy = draw(st.integers(0, wx)), draw(st.integers(0, wy))
    else:
        wx = draw(st.integers(30, 52))
        fx = draw(st.integers(0, wx))
        wy = draw(st.integers(2, 52))
        fy = draw(st.integers(0, min(wy, 62 - (wx - fx))))
    names = ['upper+lsb', 'lower-lsb', 'upper+half', '2upper', '-2upper', 'huge', '-huge', 'quarter', 'zero', 'lower', 'upper-ulp', 'one-lsb']
    return {'check': 'wide-result-write', 'op': op, 'fx': [sx, wx, fx], 'fy': [sy, wy, fy], 'rounding': draw(st.sampled_from(M.ROUNDINGS)),
            'overflow': draw(st.sampled_from(['saturate', 'saturate', 'wrap'])), 'route': draw(st.sampled_from(['set_val', 'call', 'setitem', 'scalar'])),
            'vals': draw(st.lists(st.sampled_from(names), min_size=1, max_size=4))}


def body_wide_result_write(ctx, case):
    ctx.nontrivial(('wrw', repr(sorted(case.items()))))
    ctx.sample(case, True)
    check_wide_result_write(ctx, case)


def task_hyp_wide_result_write(ctx, n):
    run_given(ctx, st_wide_result_write(), body_wide_result_write, n, ctx.task_seed)


def task_hyp_saturate(ctx, n):
    run_given(ctx, st_saturate(), body_saturate, n, ctx.task_seed)


def tasks(tier, scale=1.0):
    n, steps = (200, 40) if tier == 'quick' else (2000, 60)
    n = int(n * scale)
    out = [('machine-%d' % i, 'task_machine', {'n': n, 'steps': steps}) for i in range(14)]
    nh = int((2500 if tier == 'quick' else 40000) * scale)
    out += [('hyp-saturate-%d' % i, 'task_hyp_saturate', {'n': nh}) for i in range(4)]
    out += [('hyp-accumulator-%d' % i, 'task_hyp_accumulator', {'n': nh // 5}) for i in range(2)]
    out += [('hyp-wide-result-write-%d' % i, 'task_hyp_wide_result_write', {'n': nh // 2}) for i in range(2)]
    return out
