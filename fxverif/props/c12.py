"""C12 - dtype strings and formats determine each other in every notation."""
import numpy as np
from hypothesis import strategies as st

from .. import model as M
from .. import common as C
from ..runner import run_given

PROPERTY = 'C12'
RULE = ("Exhaustive over (signed, n_word 1..256, n_frac -8..n_word+8, complex for n_word<=52) under both configured dtype_notation defaults: x.dtype must equal the canonical spelling; "
        "Fxp(None, dtype=x.dtype), Fxp(0, dtype=x.dtype) and resize(dtype=x.dtype) reproduce (signed, n_word, n_frac, complex); get_dtype('Q') is the Q/UQ spelling and get_dtype('fxp') the fxp spelling under both defaults and "
        "x.dtype afterwards still follows the configured default; Q/UQ and S/U m.n parse to n_word=m+n whenever m>=0. Hypothesis: random spellings (case flips, explicit '+' in the fraction, S/U/Q/UQ/QU heads, "
        "omitted fraction) must parse to the model's format. Non-trivial = n_frac<0, n_frac>n_word, complex, or n_word>=64; distinct = one per (format, complex, default notation).")
ASSUMPTIONS = ['objects are built with Fxp(None, ...) (no value), an integer zero or a complex zero', 'Q notation has no complex suffix; utils.get_sizes_from_dtype (fxp_sum only) is outside the statement']
EXHAUSTIVE = True
EXHAUSTIVE_SUBDOMAINS = {'quick': ['all (signed, n_word 1..256, n_frac -8..n_word+8) + complex for n_word<=52, both notation defaults'], 'thorough': ['same, plus 16x more random spellings']}
REQUIRED_CLASSES = {'nfrac<0': 1000, 'nfrac>nword': 1000, 'complex': 1000, 'wide>=64': 10000, 'spelling': 500}


def check_fmt(ctx, case):
    s, w, f = case['fmt']
    cplx = bool(case.get('complex'))
    default = case['default']
    F = C.Fxp()
    ctx.ev()
    sig = 'dtype/%s/%s' % (default, 'complex' if cplx else 'real')
    want_fxp = M.dtype_str(s, w, f, cplx, 'fxp')
    want_q = M.dtype_str(s, w, f, False, 'Q')
    want_default = want_fxp if default == 'fxp' else want_q

    def do():
        if cplx:
            x = F(0j, bool(s), w, f, dtype_notation=default)
        else:
            x = F(None, bool(s), w, f, dtype_notation=default)
        d0 = x.dtype
        dq = x.get_dtype('Q')
        d1 = x.dtype
        df = x.get_dtype('fxp')
        d2 = x.dtype
        dn = x.get_dtype()
        return x, d0, dq, d1, df, d2, dn
    ok, res = ctx.guard(case, do, sig_prefix=sig + '/')
    if not ok:
        return
    x, d0, dq, d1, df, d2, dn = res
    if d0 != want_default:
        ctx.fail(sig + '/dtype-attribute', case, {'expected': want_default, 'got': d0})
        return
    if dq != want_q:
        ctx.fail(sig + '/get_dtype-Q', case, {'expected': want_q, 'got': dq})
        return
    if df != want_fxp:
        ctx.fail(sig + '/get_dtype-fxp', case, {'expected': want_fxp, 'got': df})
        return
    if d1 != want_default or d2 != want_default or dn != want_default:
        ctx.fail(sig + '/dtype-after-get_dtype', case, {'expected': want_default, 'got': [d1, d2, dn]})
        return
    # reproduce from the fxp spelling (always) and from the Q spelling when m >= 0 and real
    spellings = [('fxp', want_fxp, cplx)]
    if w - f >= 0 and not cplx:
        spellings.append(('Q', want_q, False))
        spellings.append(('S', ('S' if s else 'U') + want_q.lstrip('UQ'), False))
    for name, text, c2 in spellings:
        def mk():
            y = F(None, dtype=text)
            z = F(None, True, 7, 3) if not (s and w == 7 and f == 3) else F(None, False, 9, 1)
            z.resize(dtype=text)
            v = F(0j if c2 else 0, dtype=text)          # the same spelling given together with a (zero) value
            return y, z, v
        ok, res = ctx.guard(case, mk, sig_prefix='%s/parse-%s/' % (sig, name))
        if not ok:
            return
        for route, y in zip(('ctor', 'resize', 'ctor-zero-value'), res):
            got = C.fmt_of(y)
            gc = (y.vdtype == complex)
            if got != (bool(s), w, f) or gc != c2:
                ctx.fail('%s/parse-%s/%s' % (sig, name, route), case, {'text': text, 'got': got, 'complex': gc})
                return
            if y.n_int != w - f - (1 if s else 0):
                ctx.fail('%s/parse-%s/%s/n_int' % (sig, name, route), case, {'n_int': y.n_int})
                return
            if c2 and not y.dtype.endswith('-complex'):
                ctx.fail('%s/parse-%s/%s/complex-suffix-lost' % (sig, name, route), case, {'dtype': y.dtype})
                return


def check_spelling(ctx, case):
    text = case['text']
    s, w, f = case['fmt']
    cplx = bool(case.get('complex'))
    F = C.Fxp()
    ctx.ev()
    ctx.cls('spelling')
    sig = 'spelling/' + case['kind']
    ok, y = ctx.guard(case, lambda: F(None, dtype=text), sig_prefix=sig + '/')
    if not ok:
        return
    if C.fmt_of(y) != (bool(s), w, f) or (y.vdtype == complex) != cplx:
        ctx.fail(sig, case, {'text': text, 'got': C.fmt_of(y), 'complex': y.vdtype == complex})


CHECKS = {'fmt': check_fmt, 'spelling': check_spelling}


def replay(ctx, case):
    CHECKS[case['check']](ctx, case)


def task_exh(ctx, words):
    for w in words:
        for s in (1, 0):
            for f in range(-8, w + 9):
                for cplx in ((False, True) if w <= 52 else (False,)):
                    for default in ('fxp', 'Q'):
                        if cplx and default == 'Q':
                            continue
                        case = {'check': 'fmt', 'fmt': [s, w, f], 'complex': cplx, 'default': default}
                        check_fmt(ctx, case)
                        nt = f < 0 or f > w or cplx or w >= 64
                        if nt:
                            ctx.nontrivial_enum(1)
                        if f < 0:
                            ctx.cls('nfrac<0')
                        if f > w:
                            ctx.cls('nfrac>nword')
                        if cplx:
                            ctx.cls('complex')
                        if w >= 64:
                            ctx.cls('wide>=64')
        ctx.sample({'check': 'fmt', 'fmt': [1, w, w + 8], 'complex': w <= 52, 'default': 'fxp'}, True)


def flip_case(draw, text):
    return ''.join(ch.upper() if draw(st.booleans()) else ch.lower() for ch in text)


@st.composite
def st_spelling(draw):
    s = draw(st.integers(0, 1))
    w = draw(st.one_of(st.integers(1, 256), st.sampled_from([1, 8, 16, 32, 64, 128])))
    f = draw(st.integers(-8, w + 8))
    kind = draw(st.sampled_from(['fxp', 'fxp+', 'fxp-complex', 'Q', 'Q+', 'S', 'Qint', 'QU']))
    cplx = False
    if kind in ('Q', 'Q+', 'S', 'Qint', 'QU') and w - f < 0:
        f = draw(st.integers(-8, w))
    if kind == 'fxp':
        text = 'fxp-%s%d/%d' % ('s' if s else 'u', w, f)
    elif kind == 'fxp+':
        f = abs(f)
        text = 'fxp-%s%d/+%d' % ('s' if s else 'u', w, f)
    elif kind == 'fxp-complex':
        if w > 52:                      # the complex suffix is claimed for n_word<=52 only
            w = (w % 52) + 1
            f = min(f, w + 8)
        text = 'fxp-%s%d/%d-complex' % ('s' if s else 'u', w, f)
        cplx = True
    elif kind == 'Q':
        text = '%s%d.%d' % ('Q' if s else 'UQ', w - f, f)
    elif kind == 'Q+':
        f = abs(f) if w - abs(f) >= 0 else 0
        text = '%s%d.+%d' % ('Q' if s else 'UQ', w - f, f)
    elif kind == 'S':
        text = '%s%d.%d' % ('S' if s else 'U', w - f, f)
    elif kind == 'QU':
        s = 0
        text = 'QU%d.%d' % (w - f, f)
    else:
        f = 0
        text = '%s%d' % ('Q' if s else 'UQ', w)
    return {'check': 'spelling', 'kind': kind, 'text': flip_case(draw, text), 'fmt': [s, w, f], 'complex': cplx}


def body_spelling(ctx, case):
    ctx.nontrivial(('sp', case['text']))
    ctx.sample(case, True)
    check_spelling(ctx, case)


def task_hyp(ctx, n):
    run_given(ctx, st_spelling(), body_spelling, n, ctx.task_seed)


def tasks(tier, scale=1.0):
    words = list(range(1, 257))
    out = [('exh-%d' % i, 'task_exh', {'words': words[i::32]}) for i in range(32)]
    nh = int((1500 if tier == 'quick' else 100000) * scale)
    out += [('hyp-spelling-%d' % i, 'task_hyp', {'n': nh}) for i in range(4)]
    return out
