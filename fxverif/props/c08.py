"""C08 - arithmetic into an imposed format equals the exact result quantized into it."""
from fractions import Fraction
import itertools
import numpy as np
from hypothesis import strategies as st

from .. import model as M
from .. import common as C
from ..runner import run_given

PROPERTY = 'C08'
RULE = ("+,-,* whose result format is imposed by a sizing policy (same/largest/smallest/optimal), a constant operand (either side, python number / numpy scalar / 0-d array, op_input_size same/best), an explicit out object "
        "or an out_like template: expected = exact Fraction result quantized (model of C01) into the imposed format under the governing configuration's rounding/overflow "
        "(first operand's, or out's / out_like's), with exact overflow/underflow flags, result config carrying the governing modes, out returned by identity and out_like not; "
        "signed result into unsigned out/out_like raises ValueError; raw == repr; unary -,+,abs exact when representable. Independent modes are drawn for x, y and the target so that "
        "using the wrong object's mode is visible. Generated: exhaustive code pairs for n_word<=4 formats x policies; Hypothesis for 2<=n_word<=12, 0<=n_frac<=n_word-sign. "
        "Non-trivial = exact result inexact or out of range in the target format; distinct = distinct case keys.")
ASSUMPTIONS = ['operands created from raw codes, no scale/bias', 'constants are dyadic rationals exactly representable as doubles']
EXHAUSTIVE = False    # the whole quantifier is not enumerated; complete sub-domains are listed in EXHAUSTIVE_SUBDOMAINS
EXHAUSTIVE_SUBDOMAINS = {'quick': ['all code pairs of sampled format pairs n_word<=4 x 4 sizing policies x 3 ops x 10 governing modes'],
                         'thorough': ['all code pairs of all format pairs n_word<=4 (n_frac 0..n_word-sign) x 4 policies x 3 ops x 10 modes']}
REQUIRED_CLASSES = {'inexact-or-overflow': 2000, 'variant:sizing': 500, 'variant:const': 500, 'variant:out': 300, 'variant:out_like': 300, 'unary': 300, 'const:numpy-left': 300, 'const:numpy-right': 300}

OPS = ('add', 'sub', 'mul')
SIZINGS = ('same', 'largest', 'smallest', 'optimal')


def optimal(op, fx, fy):
    return M.fmt_mul(fx, fy) if op == 'mul' else M.fmt_add(fx, fy)


def exact(op, vx, vy):
    return vx + vy if op == 'add' else vx - vy if op == 'sub' else vx * vy


def opfun(op):
    import fxpmath
    return getattr(fxpmath, op)


def do_operator(op, a, b):
    return a + b if op == 'add' else a - b if op == 'sub' else a * b


def check_imposed(ctx, case):
    fx, fy = tuple(case['fx']), tuple(case['fy'])
    kx, ky = int(case['kx']), int(case['ky'])
    mx, my = tuple(case['mx']), tuple(case['my'])
    op, variant = case['op'], case['variant']
    method = case.get('method', 'raw')
    F = C.Fxp()
    vx, vy = M.value_of(kx, fx[2]), M.value_of(ky, fy[2])
    ctx.ev()
    sig = 'imposed/%s/%s/%s' % (variant, op, method)
    expect_error = None
    identity = None     # 'same' -> must be the out object; 'different'
    if variant == 'sizing':
        sizing = case['sizing']
        ft = M.fmt_sizing(sizing, fx, fy, optimal(op, fx, fy))
        gov = mx
        sig += '/' + sizing
        if ft[1] < 1:
            ctx.cls('skipped:non-positive-word')
            return

        def do():
            x = F(kx, fx[0], fx[1], fx[2], raw=True, rounding=mx[0], overflow=mx[1], op_sizing=sizing, op_method=method)
            y = F(ky, fy[0], fy[1], fy[2], raw=True, rounding=my[0], overflow=my[1])
            if case.get('route', 'operator') == 'operator':
                return do_operator(op, x, y), None
            return opfun(op)(x, y, sizing=sizing, method=method), None
        v = exact(op, vx, vy)
    elif variant == 'const':
        # constant c on one side; converted per op_input_size, result sized by const_op_sizing (default 'same')
        c = Fraction(int(case['c_num']), int(case['c_den']))
        side = case['side']            # 'right': x op c ; 'left': c op x
        ois = case['ois']
        if ois == 'same':
            kc, _, _, _ = M.quant(c, fx[0], fx[1], fx[2], mx[0], mx[1])
            fc, mc = fx, mx
        else:
            fc = M.minimal_format([c], True)
            if fc[1] < 1 or fc[1] > 40:
                ctx.cls('skipped:const-format')
                return
            kc = int(c * (1 << fc[2]))
            mc = ('trunc', 'saturate')
        vc = M.value_of(kc, fc[2])
        first_f, second_f, gov = (fx, fc, mx) if (side == 'right' or op != 'sub') else (fc, fx, mc)
        # x + c and c + x both call add(x, c); only c - x puts the converted constant first
        ft = M.fmt_sizing('same', first_f, second_f, None)
        v = exact(op, vx, vc) if (side == 'right' or op != 'sub') else exact(op, vc, vx)
        sig += '/%s/%s' % (side, ois)
        cf = float(c) if c.denominator != 1 or case.get('c_float') else int(c)
        if case.get('c_numpy'):
            # the same constant as a numpy scalar or 0-d array (on the left it reaches the object through numpy's dispatch)
            cf = np.array(cf) if case['c_numpy'] == '0d' else (np.float64(cf) if isinstance(cf, float) else np.int64(cf))
            sig += '/numpy-' + case['c_numpy']

        def do():
            x = F(kx, fx[0], fx[1], fx[2], raw=True, rounding=mx[0], overflow=mx[1], op_input_size=ois, op_method=method)
            return (do_operator(op, x, cf) if side == 'right' else do_operator(op, cf, x)), None
    elif variant in ('out', 'out_like'):
        ft = tuple(case['ft'])
        mt = tuple(case['mt'])
        gov = mt
        v = exact(op, vx, vy)
        left_const = bool(case.get('left_const')) and case.get('route') == 'config-array'
        if left_const:
            # the first operand is a plain numpy number holding y's value (converted to a signed object by the numpy route)
            v = exact(op, vy, vx)
            sig += '/left-const'
        if (fx[0] or fy[0] or left_const) and not ft[0]:
            expect_error = ValueError
        identity = 'same' if variant == 'out' else 'different'

        def do():
            x = F(kx, fx[0], fx[1], fx[2], raw=True, rounding=mx[0], overflow=mx[1])
            y = F(ky, fy[0], fy[1], fy[2], raw=True, rounding=my[0], overflow=my[1])
            T = F(None, ft[0], ft[1], ft[2], rounding=mt[0], overflow=mt[1])
            if case.get('dirty') and variant == 'out_like':
                # the template already carries raised flags: a result built like it starts from a clean record
                T(1e30)
                T(-1e30)
                T(0)
            if case.get('route') == 'config':
                if variant == 'out':
                    x.config.op_out = T
                else:
                    x.config.op_out_like = T
                x.config.op_method = method
                return do_operator(op, x, y), T
            if case.get('route') == 'config-array':
                # the numpy function form, with the target taken from the configuration of the first operand
                if variant == 'out':
                    x.config.array_op_out = T
                else:
                    x.config.array_op_out_like = T
                npf = {'add': np.add, 'sub': np.subtract, 'mul': np.multiply}[op]
                return (npf(np.float64(float(vy)), x) if left_const else npf(x, y)), T
            return opfun(op)(x, y, method=method, **{variant: T}), T
    else:
        raise ValueError(variant)

    if expect_error is not None:
        try:
            do()
        except expect_error:
            ctx.cls('rejected-signed-into-unsigned')
            return
        except Exception as e:                          # noqa: BLE001
            ctx.fail(sig + '/wrong-exception', case, {'exception': repr(e)[:200]})
            return
        ctx.fail(sig + '/signed-into-unsigned-accepted', case, {})
        return
    ok, res = ctx.guard(case, do, sig_prefix=sig + '/')
    if not ok:
        return
    z, T = res
    ek, eo, eu, einx = M.quant(v, ft[0], ft[1], ft[2], gov[0], gov[1])
    if C.fmt_of(z) != (bool(ft[0]), ft[1], ft[2]):
        ctx.fail(sig + '/format', case, {'expected': ft, 'got': C.fmt_of(z)})
        return
    try:
        k = C.codes(z)
    except ValueError as e:
        ctx.fail(sig + '/non-integer-code', case, {'error': str(e)})
        return
    x_t = M.scaled(v, ft[2])
    kind = 'tie' if x_t.denominator == 2 else 'exact' if x_t.denominator == 1 else 'inexact'
    side_ = 'over' if eo else 'under' if eu else 'in'
    if k != ek:
        ctx.fail('%s/value/%s-%s/%s-%s' % (sig, kind, side_, gov[0], gov[1]), case, {'exact': str(v), 'target': ft, 'expected_code': ek, 'got_code': k})
        return
    o, u, _ = C.flags(z)
    if (o, u) != (eo, eu):
        ctx.fail('%s/flags/%s' % (sig, side_), case, {'expected': [eo, eu], 'got': [o, u]})
        return
    if (z.config.rounding, z.config.overflow) != gov:
        ctx.fail(sig + '/result-config', case, {'expected': gov, 'got': [z.config.rounding, z.config.overflow]})
        return
    if identity == 'same' and z is not T:
        ctx.fail(sig + '/out-not-returned', case, {})
    if identity == 'different' and z is T:
        ctx.fail(sig + '/out_like-returned-itself', case, {})


def check_unary(ctx, case):
    fx = tuple(case['fx'])
    kx = int(case['kx'])
    op = case['op']
    F = C.Fxp()
    lo, hi = M.rng(fx[0], fx[1])
    want = -kx if op == 'neg' else kx if op == 'pos' else abs(kx)
    ctx.ev()
    ctx.cls('unary')
    sig = 'unary/' + op

    def do():
        x = F(kx, fx[0], fx[1], fx[2], raw=True, rounding=case['mx'][0], overflow=case['mx'][1])
        z = -x if op == 'neg' else +x if op == 'pos' else abs(x)
        return x, z
    ok, res = ctx.guard(case, do, sig_prefix=sig + '/')
    if not ok:
        return
    x, z = res
    if C.fmt_of(z) != (bool(fx[0]), fx[1], fx[2]):
        ctx.fail(sig + '/format', case, {'got': C.fmt_of(z)})
        return
    try:
        k = C.codes(z)
    except ValueError as e:
        ctx.fail(sig + '/non-integer-code', case, {'error': str(e)})
        return
    if lo <= want <= hi:
        if k != want or C.flags(z)[:2] != (False, False):
            ctx.fail(sig + '/representable', case, {'expected': want, 'got': k, 'flags': C.flags(z)})
    else:
        # latitude: only an in-range code with a raised overflow/underflow flag is required
        if not (lo <= k <= hi) or not any(C.flags(z)[:2]):
            ctx.fail(sig + '/unrepresentable-silent', case, {'got': k, 'flags': C.flags(z)})
    if C.codes(x) != kx:
        ctx.fail(sig + '/operand-modified', case, {})


CHECKS = {'imposed': check_imposed, 'unary': check_unary}


def replay(ctx, case):
    CHECKS[case['check']](ctx, case)


def classify(ctx, case):
    """Non-triviality: exact result inexact or out of range in the target (computed from the inputs only)."""
    ctx.cls('variant:' + case['variant'])
    if case.get('c_numpy') and case['variant'] == 'const':
        ctx.cls('const:numpy-' + case.get('side', 'right'))


def fmts_c08(max_w, min_w=2):
    return [(s, w, f) for w in range(min_w, max_w + 1) for s in (True, False) for f in range(0, w - int(s) + 1)]


def nontrivial_of(case):
    fx, fy = tuple(case['fx']), tuple(case['fy'])
    if case['variant'] == 'sizing':
        ft = M.fmt_sizing(case['sizing'], fx, fy, optimal(case['op'], fx, fy))
    elif case['variant'] == 'const':
        ft = fx
    else:
        ft = tuple(case['ft'])
    if ft[1] < 1:
        return False
    if case['variant'] == 'const':
        return True
    v = exact(case['op'], M.value_of(int(case['kx']), fx[2]), M.value_of(int(case['ky']), fy[2]))
    xs = M.scaled(v, ft[2])
    lo, hi = M.rng(ft[0], ft[1])
    return xs.denominator != 1 or xs > hi or xs < lo


def task_exh(ctx, pairs):
    for fx, fy in pairs:
        lox, hix = M.rng(fx[0], fx[1])
        loy, hiy = M.rng(fy[0], fy[1])
        for op in OPS:
            for sizing in SIZINGS:
                for mi, mx in enumerate(C.MODES):
                    my = C.MODES[(mi + 3) % len(C.MODES)]
                    for kx in range(lox, hix + 1):
                        for ky in range(loy, hiy + 1):
                            case = {'check': 'imposed', 'variant': 'sizing', 'fx': list(fx), 'fy': list(fy), 'kx': kx, 'ky': ky,
                                    'mx': list(mx), 'my': list(my), 'op': op, 'sizing': sizing, 'method': 'raw', 'route': 'operator'}
                            if nontrivial_of(case):
                                ctx.nontrivial_enum(1)
                                ctx.cls('inexact-or-overflow')
                            ctx.cls('variant:sizing')
                            check_imposed(ctx, case)
        ctx.sample({'check': 'imposed-exhaustive', 'fx': list(fx), 'fy': list(fy)}, True)


@st.composite
def st_case(draw):
    fl = fmts_c08(12)
    fx = draw(st.sampled_from(fl))
    fy = draw(st.sampled_from(fl))
    variant = draw(st.sampled_from(['sizing', 'sizing', 'const', 'const', 'out', 'out_like']))
    case = {'check': 'imposed', 'variant': variant, 'fx': list(fx), 'fy': list(fy), 'kx': draw(C.st_code(fx)), 'ky': draw(C.st_code(fy)),
            'mx': list(draw(C.st_modes())), 'my': list(draw(C.st_modes())), 'op': draw(st.sampled_from(OPS)),
            'method': draw(st.sampled_from(['raw', 'repr']))}
    if variant == 'sizing':
        case['sizing'] = draw(st.sampled_from(SIZINGS))
        case['route'] = draw(st.sampled_from(['operator', 'function']))
    elif variant == 'const':
        den = 1 << draw(st.integers(0, 6))
        num = draw(st.integers(-300, 300))
        case.update(c_num=num, c_den=den, side=draw(st.sampled_from(['left', 'right'])), ois=draw(st.sampled_from(['same', 'best'])),
                    c_float=draw(st.booleans()), c_numpy=draw(st.sampled_from([None, None, 'scalar', '0d'])))
    else:
        case['ft'] = list(draw(st.sampled_from(fl + fmts_c08(20, 13))))
        case['mt'] = list(draw(C.st_modes()))
        case['route'] = draw(st.sampled_from(['kwarg', 'config', 'config-array']))
        case['dirty'] = draw(st.booleans())
        case['left_const'] = draw(st.booleans())
    return case


def body(ctx, case):
    classify(ctx, case)
    nt = nontrivial_of(case)
    if nt:
        ctx.cls('inexact-or-overflow')
        ctx.nontrivial(('imp', repr(sorted(case.items()))))
    ctx.sample(case, nt)
    check_imposed(ctx, case)


@st.composite
def st_unary(draw):
    fx = draw(st.sampled_from(fmts_c08(12)))
    return {'check': 'unary', 'fx': list(fx), 'kx': draw(C.st_code(fx)), 'op': draw(st.sampled_from(['neg', 'pos', 'abs'])), 'mx': list(draw(C.st_modes()))}


def body_unary(ctx, case):
    if int(case['kx']) < 0:
        ctx.nontrivial(('unary', repr(sorted(case.items()))))
    ctx.sample(case, int(case['kx']) < 0)
    check_unary(ctx, case)


def task_hyp(ctx, which, n):
    if which == 'imposed':
        run_given(ctx, st_case(), body, n, ctx.task_seed)
    else:
        run_given(ctx, st_unary(), body_unary, n, ctx.task_seed)


def tasks(tier, scale=1.0):
    out = []
    f4 = fmts_c08(4)
    pairs = list(itertools.product(f4, f4))
    if tier == 'quick':
        pairs = pairs[::7]
    n = 16 if tier == 'quick' else 48
    for i in range(n):
        out.append(('exh-%d' % i, 'task_exh', {'pairs': pairs[i::n]}))
    nh = int((2500 if tier == 'quick' else 40000) * scale)
    for i in range(12):
        out.append(('hyp-imposed-%d' % i, 'task_hyp', {'which': 'imposed', 'n': nh}))
    for i in range(2):
        out.append(('hyp-unary-%d' % i, 'task_hyp', {'which': 'unary', 'n': nh}))
    return out
