"""C11 - binary and hex strings are faithful images of the code and parse back to it."""
import numpy as np
from hypothesis import strategies as st

from .. import model as M
from .. import common as C
from ..runner import run_given

PROPERTY = 'C11'
RULE = ("bin()/hex()/base_repr() of an object holding a given code vs string images built by the model with Python's format(); options frac_dot, binary prefix None/'0b'/'b', bases 2/8/10/16; bin/hex prefixes selected through the configuration (each value the Config setters list), scalar and array. "
        "Round trip (n_word>=2): the library's own rendering AND the model's rendering are fed back through the constructor, call, set_val, from_bin method and fxpmath.from_bin, in value mode (n_word<=53, "
        "with and without binary point) and raw=True mode (every n_word); the restored code must equal the original. Generated: every code of every format with n_word<=8 and every n_frac 0..n_word; boundary and "
        "random codes for n_word in {15,16,17,31,32,33,53,63,64,65,100,128,256} and random widths; scalars, 1-d and 2-d arrays. Non-trivial = negative code, or n_word not a multiple of 4, or n_frac in {0, n_word}; "
        "distinct = distinct (format, code/array, option) keys.")
ASSUMPTIONS = ['objects are created from raw codes', 'signed formats need n_word>=2 for parsing (a 1-bit signed literal is rejected by the parser by design)', "strings are fed back with the prefixes the parser recognises ('0b', 'b', '0x', '0h') or bare through from_bin; upper-case / 'h' prefixes are rendering options only (the parser rejects them with ValueError)"]
EXHAUSTIVE = False    # the whole quantifier is not enumerated; complete sub-domains are listed in EXHAUSTIVE_SUBDOMAINS
EXHAUSTIVE_SUBDOMAINS = {'quick': ['all codes x all n_frac 0..n_word for n_word<=8, both signednesses: rendering + all parse routes'], 'thorough': ['same for n_word<=10']}
REQUIRED_CLASSES = {'negative': 500, 'wide>=64': 200, 'array': 200, 'array2d': 50, 'array:w54-63': 30, 'configured-prefix': 500}
WIDTHS = [15, 16, 17, 31, 32, 33, 53, 63, 64, 65, 100, 128, 256]


def render_checks(ctx, case, x, fmt, k, sig):
    s, w, f = fmt
    exp_bin = M.bin_image(k, w)
    checks = [
        ('bin', lambda: x.bin(), exp_bin),
        ('bin-dot', lambda: x.bin(frac_dot=True), M.bin_image(k, w, n_frac=f)),
        ('bin-0b', lambda: x.bin(prefix='0b'), '0b' + exp_bin),
        ('bin-b', lambda: x.bin(prefix='b'), 'b' + exp_bin),
        ('hex', lambda: x.hex(), M.hex_image(k, w)),
        ('base2', lambda: x.base_repr(2), M.sign_magnitude(k, 2)),
        ('base8', lambda: x.base_repr(8), M.sign_magnitude(k, 8)),
        ('base10', lambda: x.base_repr(10), M.sign_magnitude(k, 10)),
        ('base16', lambda: x.base_repr(16), M.sign_magnitude(k, 16)),
    ]
    for name, fn, want in checks:
        ok, got = ctx.guard(case, fn, sig_prefix='%s/render-%s/' % (sig, name))
        if not ok:
            return False
        if got != want:
            ctx.fail('%s/render-%s' % (sig, name), case, {'code': str(k), 'expected': want, 'got': repr(got)[:200]})
            return False
    return True


def parse_routes(F, fmt, text, raw, is_bin):
    """Yield (route name, thunk returning an Fxp) for feeding `text` back into the same format."""
    import fxpmath
    s, w, f = fmt
    kw = {'raw': True} if raw else {}
    yield 'ctor', lambda: F(text, s, w, f, **kw)
    if not raw:
        yield 'call', lambda: F(None, s, w, f)(text)
    yield 'set_val', lambda: F(None, s, w, f).set_val(text, **kw)
    if is_bin:
        yield 'from_bin', lambda: F(None, s, w, f).from_bin(text, **kw)
        yield 'fxpmath.from_bin', lambda: fxpmath.from_bin(text, signed=s, n_word=w, n_frac=f, **kw)


def check_scalar(ctx, case):
    fmt = tuple(case['fmt'])
    s, w, f = fmt
    k = int(case['k'])
    F = C.Fxp()
    ctx.ev()
    sig = 'scalar/%s' % ('wide' if w >= 64 else 'core')
    ok, x = ctx.guard(case, lambda: F(k, s, w, f, raw=True), sig_prefix=sig + '/')
    if not ok:
        return
    if C.codes(x) != k:
        ctx.fail(sig + '/raw-store', case, {'got': str(C.codes(x))})
        return
    if not render_checks(ctx, case, x, fmt, k, sig):
        return
    # prefixes selected through the configuration (every value the Config setters list as usual), scalar and 1-d array
    bp, hp = case.get('bin_prefix', None), case.get('hex_prefix', '0x')
    if case.get('cfg_prefix'):
        def cfg():
            xs = F(k, s, w, f, raw=True, bin_prefix=bp, hex_prefix=hp)
            xa = F(np.array([k, 0], dtype=object if w > 62 else np.int64), s, w, f, raw=True, bin_prefix=bp, hex_prefix=hp)
            return xs.bin(), xs.hex(), xs.bin(frac_dot=True), to_plain(xa.bin()), to_plain(xa.hex())
        ok, got = ctx.guard(case, cfg, sig_prefix=sig + '/render-configured-prefix/')
        if not ok:
            return
        b0, h0 = M.bin_image(k, w), M.hex_image(k, w, prefix='')
        z0, zh = M.bin_image(0, w), M.hex_image(0, w, prefix='')
        want = ((bp or '') + b0, (hp or '') + h0, (bp or '') + M.bin_image(k, w, n_frac=f), [(bp or '') + b0, (bp or '') + z0], [(hp or '') + h0, (hp or '') + zh])
        if tuple(got) != want:
            ctx.fail(sig + '/render-configured-prefix', case, {'expected': list(want), 'got': list(got)})
            return
    if w < 2:
        return
    lib_bin, lib_hex, lib_dot = x.bin(), x.hex(), x.bin(frac_dot=True)
    texts = [('lib-bin', '0b' + lib_bin, True, True), ('lib-hex', lib_hex, False, True), ('lib-bin-0b', x.bin(prefix='0b'), True, True),
             ('model-bin', '0b' + M.bin_image(k, w), True, True), ('model-hex', M.hex_image(k, w), False, True),
             # the short prefixes the parser also recognises: 'b' (binary) and '0h' (hex)
             ('lib-bin-b', x.bin(prefix='b'), True, True), ('lib-hex-0h', x.hex(prefix='0h'), False, True)]
    if 0 < f < w:
        # the rendering with the binary point, fed back as a raw value: the digits are the code, wherever the point sits
        texts.append(('lib-bin-dot-raw', '0b' + lib_dot, True, True))
        texts.append(('lib-bin-dot-b-raw', x.bin(frac_dot=True, prefix='b'), True, True))
    if w <= 53:
        texts += [('lib-bin-value', '0b' + lib_bin, True, False), ('lib-hex-value', lib_hex, False, False), ('lib-bin-b-value', 'b' + lib_bin, True, False)]
        if 0 < f < w:
            texts.append(('lib-bin-dot-value', '0b' + lib_dot, True, False))
            texts.append(('lib-bin-dot-b-value', 'b' + lib_dot, True, False))
    for tname, text, is_bin, raw in texts:
        for rname, thunk in parse_routes(F, fmt, text, raw, is_bin):
            psig = '%s/parse/%s/%s' % (sig, tname, rname)
            ok, y = ctx.guard(case, thunk, sig_prefix=psig + '/')
            if not ok:
                return
            try:
                got = C.codes(y)
            except ValueError as e:
                ctx.fail(psig + '/non-integer-code', case, {'error': str(e)})
                return
            if got != k or C.fmt_of(y) != (bool(s), w, f):
                ctx.fail(psig, case, {'text': text, 'code': str(k), 'restored': str(got), 'fmt': C.fmt_of(y)})
                return


def nested(codes, shape):
    if len(shape) == 1:
        return list(codes)
    r, c = shape
    return [codes[i * c:(i + 1) * c] for i in range(r)]


def to_plain(o):
    """Library renderings of arrays may be lists / ndarrays of str: normalise to nested lists of str."""
    if isinstance(o, np.ndarray):
        return o.tolist()
    if isinstance(o, (list, tuple)):
        return [to_plain(e) for e in o]
    return o


def check_array(ctx, case):
    fmt = tuple(case['fmt'])
    s, w, f = fmt
    codes = [int(k) for k in case['codes']]
    shape = tuple(case['shape'])
    F = C.Fxp()
    ctx.ev()
    sig = 'array%dd/%s' % (len(shape), 'wide' if w >= 64 else 'w54-63' if w >= 54 else 'core')
    arr = np.array(codes, dtype=object if w > 62 else np.int64).reshape(shape)
    ok, x = ctx.guard(case, lambda: F(arr, s, w, f, raw=True), sig_prefix=sig + '/')
    if not ok:
        return
    try:
        stored = C.flat(C.codes(x))
    except ValueError as e:
        ctx.fail(sig + '/raw-store-non-integer', case, {'error': str(e)})
        return
    if stored != codes:
        ctx.fail(sig + '/raw-store', case, {'got': [str(k) for k in stored]})
        return
    want_bin = nested([M.bin_image(k, w) for k in codes], shape)
    want_hex = nested([M.hex_image(k, w) for k in codes], shape)
    for name, fn, want in (('bin', lambda: x.bin(), want_bin), ('hex', lambda: x.hex(), want_hex),
                           ('bin-dot', lambda: x.bin(frac_dot=True), nested([M.bin_image(k, w, n_frac=f) for k in codes], shape))):
        ok, got = ctx.guard(case, fn, sig_prefix='%s/render-%s/' % (sig, name))
        if not ok:
            return
        if to_plain(got) != want:
            ctx.fail('%s/render-%s' % (sig, name), case, {'expected': want, 'got': repr(got)[:300]})
            return
    if w < 2:
        return
    # binary text needs its prefix to be recognised by constructor/call/set_val; from_bin takes the bare digits
    lib_bin, lib_bin0, lib_hex = x.bin(), x.bin(prefix='0b'), x.hex()
    want_bin0 = nested(['0b' + M.bin_image(k, w) for k in codes], shape)
    import fxpmath
    feeds = [('lib-bin', lib_bin0, lib_bin), ('lib-hex', lib_hex, None), ('model-bin', want_bin0, want_bin), ('model-hex', want_hex, None),
             ('lib-bin-dot', x.bin(frac_dot=True, prefix='0b'), x.bin(frac_dot=True)),
             ('lib-bin-dot-b', x.bin(frac_dot=True, prefix='b'), None), ('lib-bin-b', x.bin(prefix='b'), None),
             # the same texts held by a numpy array of strings (what bin()/hex() of a 2-d object return row by row)
             ('ndarray-bin', np.array(want_bin0), np.array(want_bin)), ('ndarray-hex', np.array(want_hex), None)]
    for tname, text, bare in feeds:
        routes = [('ctor-raw', lambda t=text: F(t, s, w, f, raw=True)), ('set_val-raw', lambda t=text: F(None, s, w, f).set_val(t, raw=True))]
        if bare is not None:
            routes.append(('from_bin-raw', lambda t=bare: F(None, s, w, f).from_bin(t, raw=True)))
            routes.append(('fxpmath.from_bin-raw', lambda t=bare: fxpmath.from_bin(t, signed=s, n_word=w, n_frac=f, raw=True)))
        if w <= 53:
            routes.append(('ctor-value', lambda t=text: F(t, s, w, f)))
            routes.append(('call-value', lambda t=text: F(None, s, w, f)(t)))
        for rname, thunk in routes:
            psig = '%s/parse/%s/%s' % (sig, tname, rname)
            before = repr(text) + repr(bare)
            ok, y = ctx.guard(case, thunk, sig_prefix=psig + '/')
            if not ok:
                return
            try:
                got = C.flat(C.codes(y))
            except ValueError as e:
                ctx.fail(psig + '/non-integer-code', case, {'error': str(e)})
                return
            if got != codes or C.shape_of(y) != shape:
                ctx.fail(psig, case, {'codes': [str(k) for k in codes], 'restored': [str(k) for k in got], 'shape': list(C.shape_of(y))})
                return
            if repr(text) + repr(bare) != before:
                ctx.fail(psig + '/input-mutated', case, {})
                return


CHECKS = {'scalar': check_scalar, 'array': check_array}


def replay(ctx, case):
    CHECKS[case['check']](ctx, case)


def task_exh(ctx, fmts):
    for fmt in fmts:
        s, w, f = fmt
        lo, hi = M.rng(s, w)
        for k in range(lo, hi + 1):
            case = {'check': 'scalar', 'fmt': list(fmt), 'k': k}
            check_scalar(ctx, case)
            if k < 0:
                ctx.cls('negative')
            if k < 0 or w % 4 or f in (0, w):
                ctx.nontrivial_enum(1)
        ctx.sample({'check': 'scalar-exhaustive', 'fmt': list(fmt), 'codes': hi - lo + 1}, True)
        # the whole code set as a 1-d array and, when possible, as a 2-d array
        codes = list(range(lo, hi + 1))
        check_array(ctx, {'check': 'array', 'fmt': list(fmt), 'codes': codes, 'shape': [len(codes)]})
        ctx.cls('array')
        if len(codes) >= 4:
            check_array(ctx, {'check': 'array', 'fmt': list(fmt), 'codes': codes, 'shape': [2, len(codes) // 2]})
            ctx.cls('array2d')


@st.composite
def st_fmt_wide(draw):
    w = draw(st.one_of(st.sampled_from(WIDTHS), st.integers(9, 256)))
    s = draw(st.booleans())
    f = draw(st.one_of(st.sampled_from([0, 1, w // 2, w - 1, w]), st.integers(0, w)))
    return (s, w, f)


@st.composite
def st_code_wide(draw, fmt):
    lo, hi = M.rng(fmt[0], fmt[1])
    w = fmt[1]
    pats = [lo, lo + 1, hi, hi - 1, 0, 1, -1, (1 << (w - 1)) - 1, (1 << 63) - 1, 1 << 63, (1 << 64) - 1, -(1 << 63), hi >> 1,
            int('01' * (w // 2 + 1), 2) & hi, int('10' * (w // 2 + 1), 2) & hi]
    pats = [p for p in pats if lo <= p <= hi]
    return draw(st.one_of(st.sampled_from(pats), st.integers(lo, hi)))


@st.composite
def st_scalar(draw):
    fmt = draw(st_fmt_wide())
    case = {'check': 'scalar', 'fmt': list(fmt), 'k': draw(st_code_wide(fmt))}
    if draw(st.integers(0, 2)) == 0:
        case.update(cfg_prefix=True, bin_prefix=draw(st.sampled_from([None, 'b', '0b', 'B', '0B'])),
                    hex_prefix=draw(st.sampled_from([None, 'x', '0x', 'X', '0X', 'h', '0h', 'H', '0H'])))
    return case


def body_scalar(ctx, case):
    fmt = tuple(case['fmt'])
    k = int(case['k'])
    if k < 0:
        ctx.cls('negative')
    if fmt[1] >= 64:
        ctx.cls('wide>=64')
    if case.get('cfg_prefix'):
        ctx.cls('configured-prefix')
    nt = k < 0 or fmt[1] % 4 != 0 or fmt[2] in (0, fmt[1])
    if nt:
        ctx.nontrivial(('scalar', fmt, k))
    ctx.sample(case, nt)
    check_scalar(ctx, case)


@st.composite
def st_array(draw):
    fmt = draw(st_fmt_wide())
    shape = draw(st.sampled_from([[1], [2], [3], [5], [1, 1], [2, 2], [2, 3], [3, 1]]))
    n = int(np.prod(shape))
    return {'check': 'array', 'fmt': list(fmt), 'codes': [draw(st_code_wide(fmt)) for _ in range(n)], 'shape': shape}


def body_array(ctx, case):
    fmt = tuple(case['fmt'])
    ctx.cls('array')
    if len(case['shape']) == 2:
        ctx.cls('array2d')
    if fmt[1] >= 64:
        ctx.cls('wide>=64')
    elif fmt[1] >= 54:
        ctx.cls('array:w54-63')
    ctx.nontrivial(('array', fmt, tuple(int(k) for k in case['codes']), tuple(case['shape'])))
    ctx.sample(case, True)
    check_array(ctx, case)


def task_hyp(ctx, which, n):
    if which == 'scalar':
        run_given(ctx, st_scalar(), body_scalar, n, ctx.task_seed)
    else:
        run_given(ctx, st_array(), body_array, n, ctx.task_seed)


def tasks(tier, scale=1.0):
    wmax = 8 if tier == 'quick' else 10
    fmts = [(s, w, f) for w in range(1, wmax + 1) for s in (True, False) for f in range(0, w + 1)]
    # balance: wide formats are the expensive ones, interleave
    n = 24 if tier == 'quick' else 48
    fmts.sort(key=lambda t: -t[1])
    out = [('exh-%d' % i, 'task_exh', {'fmts': fmts[i::n]}) for i in range(n)]
    nh = int((400 if tier == 'quick' else 20000) * scale)
    out += [('hyp-scalar-%d' % i, 'task_hyp', {'which': 'scalar', 'n': nh}) for i in range(8)]
    out += [('hyp-array-%d' % i, 'task_hyp', {'which': 'array', 'n': nh}) for i in range(8)]
    return out
