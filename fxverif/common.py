"""Adapters around the code under test and shared Hypothesis strategies."""
from fractions import Fraction
import numpy as np
from hypothesis import strategies as st

from . import model as M

ROUNDINGS = M.ROUNDINGS
OVERFLOWS = M.OVERFLOWS
MODES = [(r, o) for r in ROUNDINGS for o in OVERFLOWS]


def Fxp():
    from fxpmath import Fxp as F
    return F


# ------------------------------------------------------------------ observation
def to_int(e):
    """Exact Python int of one stored element; raises ValueError if not integral."""
    if isinstance(e, (bool, np.bool_)):
        return int(e)
    if isinstance(e, (int, np.integer)):
        return int(e)
    if isinstance(e, (float, np.floating)):
        if e != e or e in (float('inf'), float('-inf')) or Fraction(float(e)).denominator != 1:
            raise ValueError('non-integral code %r' % (e,))
        return int(Fraction(float(e)))
    if isinstance(e, (complex, np.complexfloating)):
        raise ValueError('complex code %r' % (e,))
    return int(e)


def codes(x):
    """Stored codes of x as (nested lists of) Python ints."""
    v = x.val
    a = np.asarray(v)
    if a.ndim == 0:
        return to_int(a.item())
    return _map(a.tolist())


def _map(l):
    if isinstance(l, list):
        return [_map(e) for e in l]
    return to_int(l)


def ccodes(x):
    """(real_codes, imag_codes) of a complex Fxp, flattened."""
    a = np.asarray(x.val)
    flat = a.ravel().tolist() if a.ndim else [a.item()]
    re, im = [], []
    for e in flat:
        e = complex(e)
        re.append(to_int(e.real))
        im.append(to_int(e.imag))
    return re, im


def flat(l):
    if isinstance(l, list):
        out = []
        for e in l:
            out.extend(flat(e))
        return out
    return [l]


def flags(x):
    s = x.status
    return (bool(s['overflow']), bool(s['underflow']), bool(s['inaccuracy']))


def fmt_of(x):
    return (bool(x.signed), int(x.n_word), int(x.n_frac))


def frac_of(v):
    """Exact Fraction of a number returned by the library (Python or numpy scalar)."""
    if isinstance(v, (int, np.integer)):
        return Fraction(int(v))
    if isinstance(v, np.longdouble):
        return Fraction(float(v)) if float(v) == v else None
    if isinstance(v, (float, np.floating)):
        return Fraction(float(v))
    return Fraction(v)


def values(x):
    """get_val() of x as flat list of exact Fractions."""
    g = x.get_val()
    a = np.asarray(g)
    return [frac_of(e) for e in (a.ravel().tolist() if a.ndim else [a.item()])]


def shape_of(x):
    return tuple(np.asarray(x.val).shape)


def mk(fmt, val=None, rounding=None, overflow=None, raw=False, **kw):
    """Construct an Fxp of an explicit format."""
    F = Fxp()
    if rounding is not None:
        kw['rounding'] = rounding
    if overflow is not None:
        kw['overflow'] = overflow
    if raw:
        kw['raw'] = True
    return F(val, bool(fmt[0]), int(fmt[1]), int(fmt[2]), **kw)


def mk_raw(fmt, code, **kw):
    """Construct an Fxp holding exactly the given code(s) (raw route; codes must be in range)."""
    return mk(fmt, code, raw=True, **kw)


# ------------------------------------------------------------------ strategies
W_WEIGHTED = [1, 2, 3, 4, 5, 6, 7, 8, 12, 16, 24, 31, 32, 33, 48, 52]


def st_word(max_w=52, min_w=1):
    favs = [w for w in W_WEIGHTED if min_w <= w <= max_w]
    return st.one_of(st.sampled_from(favs), st.integers(min_w, max_w))


@st.composite
def st_fmt(draw, max_w=52, min_w=1, f_lo=-8, f_hi_extra=8, f_rel=None):
    """(signed, n_word, n_frac) in the core domain, biased to the edges of the n_frac range."""
    s = draw(st.booleans())
    w = draw(st_word(max_w, min_w))
    lo, hi = f_lo, w + f_hi_extra
    favs = sorted({x for x in (lo, -1, 0, 1, w // 2, w - 1 - int(s), w - 1, w, w + 1, hi) if lo <= x <= hi})
    f = draw(st.one_of(st.sampled_from(favs), st.integers(lo, hi)))
    return (s, w, f)


def st_modes():
    return st.tuples(st.sampled_from(ROUNDINGS), st.sampled_from(OVERFLOWS))


@st.composite
def st_code(draw, fmt, spread=0):
    """An in-range code biased to the boundaries."""
    lo, hi = M.rng(fmt[0], fmt[1])
    favs = sorted({c for c in (lo, lo + 1, -1, 0, 1, hi - 1, hi, hi // 2, lo // 2) if lo <= c <= hi})
    return draw(st.one_of(st.sampled_from(favs), st.integers(lo, hi)))


@st.composite
def st_x4(draw, fmt, over=3, limit_bits=62):
    """A scaled input x = v*2^n_frac in quarter-LSB units (returns the integer 4x).

    Built from a base code (range ends, zero, uniform in range, uniform in
    `over` times the range, multiples of the modulus) plus a quarter offset, so
    that ties, boundaries and both overflow sides are hit by construction."""
    s, w, f = fmt
    lo, hi = M.rng(s, w)
    m = 1 << w
    span = hi - lo + 1
    kind = draw(st.sampled_from(['hi', 'lo', 'zero', 'in', 'wide', 'mod', 'in', 'hi', 'lo']))
    if kind == 'hi':
        base = hi + draw(st.integers(-2, 2))
    elif kind == 'lo':
        base = lo + draw(st.integers(-2, 2))
    elif kind == 'zero':
        base = draw(st.integers(-2, 2))
    elif kind == 'in':
        base = draw(st.integers(lo, hi))
    elif kind == 'wide':
        base = draw(st.integers(lo - over * span, hi + over * span))
    else:
        base = draw(st.integers(-4, 4)) * m + draw(st.sampled_from([lo, hi, 0, -1, 1]))
    q = draw(st.integers(-6, 6))
    x4 = 4 * base + q
    cap = (1 << limit_bits) * 4 - 1
    if abs(x4) > cap:
        x4 = cap if x4 > 0 else -cap
    return x4


def clamp_sig_bits(x4, bits=53):
    """Drop low bits of the integer x4 until it has <= bits significant bits (construction, not rejection)."""
    if x4 == 0:
        return 0
    n = abs(x4)
    extra = n.bit_length() - bits
    if extra > 0:
        tz = (n & -n).bit_length() - 1
        if tz < extra:
            n = (n >> extra) << extra
    return n if x4 > 0 else -n


def v_from_x4(x4, n_frac):
    return Fraction(x4, 4) * M.pow2(-n_frac)
