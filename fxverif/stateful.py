"""Glue between Hypothesis rule-based state machines and JSON-replayable histories.

A property defines a *world* (an interpreter of JSON operations that carries the
real objects and the model side by side and raises Mismatch when they disagree)
and a dict of operation strategies.  build_machine turns that into a
RuleBasedStateMachine whose rules draw one operation each and feed it to the
world; the list of operations executed so far is the replay file."""
import os

from hypothesis.stateful import RuleBasedStateMachine, rule, initialize

from .runner import in_repo_traceback, _Abort


class Mismatch(Exception):
    def __init__(self, sig, detail):
        super().__init__(sig)
        self.sig, self.detail = sig, detail


def apply_guarded(world, op):
    """Apply one op; library exceptions are turned into Mismatch with an exception signature."""
    try:
        world.apply(op)
    except (Mismatch, AssertionError, _Abort):
        raise
    except Exception as e:                              # noqa: BLE001
        fs = in_repo_traceback(e.__traceback__)
        if fs is None:
            raise
        raise Mismatch('%s/exception:%s@%s:%s' % (op.get('op'), type(e).__name__, os.path.basename(fs.filename), fs.name),
                       {'exception': repr(e)[:300], 'line': fs.lineno})


def run_history(ctx, world_cls, case):
    """Replay a saved history without Hypothesis."""
    world = world_cls()
    for op in case['steps']:
        ctx.ev()
        try:
            apply_guarded(world, op)
        except Mismatch as m:
            ctx.fail(m.sig, case, m.detail)
            return world
    return world


def build_machine(world_cls, op_strategies, check_name, init_strategy=None):
    class Machine(RuleBasedStateMachine):
        ctx = None

        def __init__(self):
            super().__init__()
            self.world = world_cls()
            self.trace = []
            self.dead = False

        def step(self, op):
            if self.dead:
                return
            self.ctx.check_deadline()
            self.trace.append(op)
            self.ctx.ev()
            try:
                apply_guarded(self.world, op)
            except Mismatch as m:
                self.dead = True
                self.ctx.fail(m.sig, {'check': check_name, 'steps': list(self.trace)}, m.detail)

        def teardown(self):
            try:
                self.world.summarize(self.ctx, self.trace)
            except AttributeError:
                pass

    def make_rule(name, strat):
        @rule(op=strat)
        def r(self, op):
            self.step(dict(op, op=name.split('#')[0]))
        r.__name__ = 'rule_' + name.replace('#', '_')
        return r

    # a key such as 'write#2' registers the same operation once more (a cheap way to weight rules)
    for name, strat in op_strategies.items():
        setattr(Machine, 'rule_' + name.replace('#', '_'), make_rule(name, strat))
    if init_strategy is not None:
        @initialize(op=init_strategy[1])
        def init(self, op):
            self.step(dict(op, op=init_strategy[0]))
        setattr(Machine, 'init_world', init)
    Machine.__name__ = 'Machine_' + check_name
    return Machine
