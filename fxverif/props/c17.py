"""C17 - scale and bias act as an exact affine wrapper around the stored code."""
from fractions import Fraction
import numpy as np
from hypothesis import strategies as st

from .. import model as M
from .. import common as C
from ..runner import run_given

PROPERTY = 'C17'
RULE = ("Objects created with dyadic scale s=k/2^j (k in +-{1,2,3,5,7,...}, int and float carriers) and dyadic bias b=m/2^i: the unscaled target u is constructed on the quarter-LSB grid (ties, boundaries, both overflow sides) "
        "and v=u*s+b is stored by constructor (sizes given, or taken from like= with scale/bias next to it) / call / set_val / indexed assignment, scalar or array, carried by floats, python / numpy integers of every width incl. uint64, lists, tuples or another fixed-point object holding v; every intermediate (v, v-b, (v-b)/s, s*q, s*q+b) is checked in Fractions to be an exact double, so the comparison is exact, not a tolerance. "
        "Expected: code == reference quantization of u; read-back == s*code*2^-f+b; upper/lower == s*{hi,lo}*2^-f+b; precision == s*2^-f; overflow/underflow/inaccuracy flags as for u; "
        "an element indexed out of a scaled array has no flag of its own and the same read-back; a sum delivered into a scaled out= / out_like= / numpy out= target or stored by call, and a sum with a scaled operand, follow the same map (affine-out); size inference with scale/bias gives the minimal format of u. Non-trivial = s!=1 and b!=0 and u inexact or out of range; distinct = distinct case keys.")
ASSUMPTIONS = ['core-domain formats with n_word<=16', 'cases whose float pre-transform would not be exact are replaced by construction (low bits dropped), never filtered']
EXHAUSTIVE = False
REQUIRED_CLASSES = {'nontrivial': 2000, 'negative-scale': 500, 'tie': 300, 'overflow': 300, 'infer': 300, 'array': 300,
                    'carrier:list-int': 200, 'carrier:int': 200, 'carrier:np-int': 200, 'carrier:np-narrow': 200, 'carrier:np-uint64': 100, 'carrier:fxp': 200, 'affine-out': 500}

SCALES = [(1, 0), (2, 0), (3, 0), (5, 0), (7, 0), (1, 1), (3, 1), (1, 2), (3, 2), (5, 3), (1, 4), (10, 0), (-1, 0), (-2, 0), (-3, 1), (-1, 2), (-5, 2), (100, 0), (25, 3)]


def case_values(case):
    fmt = tuple(case['fmt'])
    s = Fraction(case['scale'][0], 1 << case['scale'][1])
    b = Fraction(case['bias'][0], 1 << case['bias'][1])
    us = [C.v_from_x4(int(x4), fmt[2]) for x4 in case['x4s']]
    return fmt, s, b, us


def exact_ok(u, s, b):
    v = u * s + b
    return M.is_double(u) and M.is_double(u * s) and M.is_double(v)


def num(fr, as_float):
    return float(fr) if (as_float or fr.denominator != 1) else int(fr)


def check_affine(ctx, case):
    fmt, s, b, us = case_values(case)
    sg, w, f = fmt
    mode = tuple(case['mode'])
    route = case['route']
    shape = case['shape']
    F = C.Fxp()
    if shape == 'scalar':
        us = us[:1]
    if not all(exact_ok(u, s, b) for u in us):
        ctx.cls('skipped:inexact-pretransform')
        return
    # integer-typed carriers need whole v: move v down to the next integer and recompute the unscaled target from it
    carrier = case.get('carrier', 'float')
    if carrier == 'fxp':
        pass            # the value is held exactly by another (unscaled) fixed-point object
    elif carrier != 'float':
        vi = [(u * s + b).numerator // (u * s + b).denominator for u in us]
        us2 = [(Fraction(v) - b) / s for v in vi]
        if all(exact_ok(u, s, b) and abs(v) < 2 ** 50 for u, v in zip(us2, vi)):
            us = us2
        else:
            carrier = 'float'
    vs = [u * s + b for u in us]
    if carrier == 'np-uint64' and any(v < 0 for v in vs):
        carrier = 'np-int'
    if carrier == 'fxp' and not all(M.is_double(v) and abs(v) < 2 ** 40 and (v * 2 ** 40).denominator == 1 for v in vs):
        carrier = 'float'
    ctx.cls('carrier:' + carrier)
    ctx.ev(len(us))
    sig = 'affine/%s/%s/%s' % (route, shape, carrier)
    if route == 'like-method' and carrier != 'fxp':
        route = 'ctor'
    sig = 'affine/%s/%s/%s' % (route, shape, carrier)
    sc, bi = num(s, case['scale_float']), num(b, case['bias_float'])
    if case.get('bias_np32') and isinstance(bi, float) and float(np.float32(bi)) == bi:
        bi = np.float32(bi)         # a numpy floating scalar as bias
    lo, hi = M.rng(sg, w)

    def do():
        kw = dict(rounding=mode[0], overflow=mode[1], scale=sc, bias=bi)
        if carrier == 'float':
            obj = float(vs[0]) if shape == 'scalar' else np.array([float(v) for v in vs])
        elif carrier == 'fxp':
            obj = F(float(vs[0]) if shape == 'scalar' else np.array([float(v) for v in vs]), True, 82, 40)
            if C.values(obj) != (vs[:1] if shape == 'scalar' else vs):
                raise AssertionError('harness: source object does not hold v exactly')
        elif carrier == 'np-uint64':
            kind_u = case.get('u64', 'array')
            if shape == 'scalar':
                obj = np.uint64(int(vs[0]))
            elif kind_u == 'list':
                obj = [np.uint64(int(v)) for v in vs]
            else:
                obj = np.array([int(v) for v in vs], dtype=np.uint64)
        elif carrier == 'np-narrow':
            t = next((t for t in (np.int8, np.uint8, np.int16, np.uint16, np.int32, np.uint32)
                      if all(np.iinfo(t).min <= int(v) <= np.iinfo(t).max for v in vs)), np.int64)
            obj = t(int(vs[0])) if shape == 'scalar' else np.array([int(v) for v in vs], dtype=t)
        elif shape == 'scalar':
            obj = int(vs[0]) if carrier != 'np-int' else np.int64(int(vs[0]))
        elif carrier == 'list-int':
            obj = [int(v) for v in vs]
        elif carrier == 'tuple-int':
            obj = tuple(int(v) for v in vs)
        elif carrier == 'list-float':
            obj = [float(v) for v in vs]
        else:
            obj = np.array([int(v) for v in vs], dtype=np.int64)
        if route == 'ctor':
            x = F(obj, sg, w, f, **kw)
            sel = None
        elif route == 'ctor-like':
            # sizes come from an unscaled template; scale and bias are given next to like=
            x = F(obj, like=F(None, sg, w, f), **kw)
            sel = None
        elif route == 'like-method':
            # obj.like(scaled template): the converted object holds obj's VALUE in the template's affine format
            x = obj.like(F(float(b), sg, w, f, **kw))
            sel = None
        elif route == 'call':
            # (a value-less scaled object stores v=0, i.e. u=-b/s, which may itself raise flags: start from v=b, u=0)
            x = F(float(b), sg, w, f, **kw)
            x(obj)
            sel = None
        elif route == 'set_val':
            x = F(float(b), sg, w, f, **kw)
            x.set_val(obj)
            sel = None
        else:
            n = 1 if shape == 'scalar' else len(vs)
            x = F(np.full(n + 1, float(b)), sg, w, f, **kw)
            if shape == 'scalar':
                x[1] = obj
            else:
                x[1:] = obj
            sel = 1
        return x, sel
    ok, res = ctx.guard(case, do, sig_prefix=sig + '/')
    if not ok:
        return
    x, sel = res
    q = [M.quant(u, sg, w, f, mode[0], mode[1]) for u in us]
    try:
        got = C.flat(C.codes(x))
    except ValueError as e:
        ctx.fail(sig + '/non-integer-code', case, {'error': str(e)})
        return
    if sel is not None:
        got = got[1:]
    if got != [t[0] for t in q]:
        i = next(i for i in range(len(q)) if got[i] != q[i][0])
        xs = M.scaled(us[i], f)
        kind = 'tie' if xs.denominator == 2 else 'exact' if xs.denominator == 1 else 'inexact'
        ctx.fail('%s/code/%s/%s/%s' % (sig, kind, mode[0], 'neg-scale' if s < 0 else 'pos-scale'), case,
                 {'u': str(us[i]), 'v': str(vs[i]), 'expected': q[i][0], 'got': got[i], 'scale': str(s), 'bias': str(b)})
        return
    # flags (for indexed assignment the template's own fill value b maps to u=0: exact, in range)
    want = (any(t[1] for t in q), any(t[2] for t in q), any(t[3] for t in q))
    if C.flags(x) != want:
        ctx.fail('%s/flags' % sig, case, {'expected': want, 'got': C.flags(x)})
        return
    # read-back
    rb = C.values(x)
    if sel is not None:
        rb = rb[1:]
    wantv = [s * M.value_of(t[0], f) + b for t in q]
    if all(M.is_double(s * M.value_of(t[0], f)) and M.is_double(wv) for t, wv in zip(q, wantv)):
        if rb != wantv:
            ctx.fail('%s/readback' % sig, case, {'expected': [str(v) for v in wantv], 'got': [str(v) for v in rb], 'scale': str(s), 'bias': str(b)})
            return
    # an element taken out of a scaled array: no flag of its own, same affine read-back
    if shape != 'scalar' and sel is None:
        ok, e0 = ctx.guard(case, lambda: x[0], sig_prefix='%s/element/' % sig)
        if not ok:
            return
        if any(C.flags(e0)):
            ctx.fail('affine/element/flags', case, {'flags': list(C.flags(e0)), 'scale': str(s), 'bias': str(b)})
            return
        if M.is_double(wantv[0]) and M.is_double(s * M.value_of(q[0][0], f)) and C.values(e0) != wantv[:1]:
            ctx.fail('affine/element/readback', case, {'expected': str(wantv[0]), 'got': [str(v) for v in C.values(e0)]})
            return
    # the affine wrapper survives writes of raw codes (set_val(raw=True), a bitwise operation on the object)
    if sel is None and case.get('raw_after', True):
        k2 = q[0][0]
        for name2, fn2 in (('set_val-raw', lambda: x.set_val(np.array([t[0] for t in q]).reshape(np.asarray(x.val).shape), raw=True)),
                           ('invert-twice', lambda: ~(~x))):
            ok, y = ctx.guard(case, fn2, sig_prefix='%s/%s/' % (sig, name2))
            if not ok:
                return
            rb2 = C.values(y)
            if all(M.is_double(wv) for wv in wantv) and rb2 != wantv:
                ctx.fail('affine/%s/readback' % name2, case, {'expected': [str(v) for v in wantv], 'got': [str(v) for v in rb2], 'scale': str(s), 'bias': str(b)})
                return
            if M.is_double(s * M.value_of(hi, f) + b) and C.frac_of(y.upper) != s * M.value_of(hi, f) + b:
                ctx.fail('affine/%s/upper' % name2, case, {'got': str(y.upper)})
                return
    # limits
    limits = {'upper': s * M.value_of(hi, f) + b, 'lower': s * M.value_of(lo, f) + b, 'precision': s * M.pow2(-f)}
    for name, wv in limits.items():
        gv = getattr(x, name)
        if M.is_double(wv) and C.frac_of(gv) != wv:
            ctx.fail('%s/%s' % (sig.split('/')[0], name), case, {'expected': str(wv), 'got': str(gv), 'scale': str(s), 'bias': str(b)})
            return


    # resize of a scaled object (in place, to a format that holds every code): same values, limits remapped to the new format
    if sel is None and all(M.is_double(s * M.value_of(t[0], f)) and M.is_double(wv) for t, wv in zip(q, wantv)):
        g, df = (1, 0) if (w + f) % 3 == 0 else (2, 1) if (w + f) % 3 == 1 else (3, 2)
        w2, f2 = w + g, f + df
        if w2 <= 52:
            def rs():
                y = x.deepcopy()
                y.resize(sg, w2, f2)
                return y
            ok, y = ctx.guard(case, rs, sig_prefix='%s/resize/' % sig)
            if not ok:
                return
            ctx.cls('resize-scaled')
            lo2, hi2 = M.rng(sg, w2)
            if C.fmt_of(y) != (bool(sg), w2, f2) or C.flat(C.codes(y)) != [t[0] << df for t in q]:
                ctx.fail('affine/resize/code', case, {'fmt': C.fmt_of(y), 'expected': [t[0] << df for t in q], 'got': C.flat(C.codes(y)), 'scale': str(s), 'bias': str(b)})
                return
            if C.values(y) != wantv:
                ctx.fail('affine/resize/readback', case, {'expected': [str(v) for v in wantv], 'got': [str(v) for v in C.values(y)]})
                return
            for name, wv in {'upper': s * M.value_of(hi2, f2) + b, 'lower': s * M.value_of(lo2, f2) + b, 'precision': s * M.pow2(-f2)}.items():
                if M.is_double(wv) and C.frac_of(getattr(y, name)) != wv:
                    ctx.fail('affine/resize/%s' % name, case, {'expected': str(wv), 'got': str(getattr(y, name))})
                    return


def check_affine_out(ctx, case):
    """The sum of two unscaled operands delivered into a scaled target (out=, out_like=, numpy out=), and the sum with a
    scaled second operand: the target stores the C01 quantization of (v-b)/s of the exact sum v."""
    fmt, s, b, us = case_values(case)
    sg, w, f = fmt
    mode = tuple(case['mode'])
    u = us[0]
    if not exact_ok(u, s, b):
        ctx.cls('skipped:inexact-pretransform')
        return
    v = u * s + b
    G = 1 << 20
    if (v * G).denominator != 1 or abs(v) >= 1 << 18:
        ctx.cls('skipped:sum-not-splittable')
        return
    va = Fraction(int(case.get('split', 3)) * (v * G).numerator // 7, G)      # an arbitrary exact split v = va + vb
    vb = v - va
    import fxpmath
    F = C.Fxp()
    ctx.ev()
    ctx.cls('affine-out')
    route = case.get('out_route', 'out')
    if not sg and route in ('out', 'out_like', 'numpy-out'):
        route = 'store-call'        # a signed sum is refused by an unsigned out / out_like target (ValueError by design)
    sig = 'affine-out/%s' % route
    sc, bi = num(s, case['scale_float']), num(b, case['bias_float'])

    def do():
        a, c = F(float(va), True, 48, 20), F(float(vb), True, 48, 20)
        if C.values(a) != [va] or C.values(c) != [vb]:
            raise AssertionError('harness: operands do not hold the split exactly')
        T = F(float(b), sg, w, f, rounding=mode[0], overflow=mode[1], scale=sc, bias=bi)
        if route == 'out':
            return fxpmath.add(a, c, out=T)
        if route == 'out_like':
            return fxpmath.add(a, c, out_like=T)
        if route == 'numpy-out':
            return np.add(a, c, out=T)
        if route == 'scaled-operand':
            # the second operand itself is a scaled object holding vb: the sum is taken on values
            cs = F(float(vb), True, 48, 20, scale=2, bias=-1)
            if C.values(cs) != [vb]:
                return None
            z = a + cs
            return ('value', z)
        return T(fxpmath.add(a, c))
    ok, z = ctx.guard(case, do, sig_prefix=sig + '/')
    if not ok or z is None:
        return
    if isinstance(z, tuple):
        if C.values(z[1]) != [v]:
            ctx.fail(sig + '/value', case, {'expected': str(v), 'got': [str(t) for t in C.values(z[1])]})
        return
    q = M.quant(u, sg, w, f, mode[0], mode[1])
    try:
        k = C.codes(z)
    except ValueError as e:
        ctx.fail(sig + '/non-integer-code', case, {'error': str(e)})
        return
    if k != q[0]:
        ctx.fail(sig + '/code', case, {'v': str(v), 'u': str(u), 'expected': q[0], 'got': k, 'scale': str(s), 'bias': str(b)})
        return
    wantv = s * M.value_of(q[0], f) + b
    if M.is_double(wantv) and M.is_double(s * M.value_of(q[0], f)) and C.values(z) != [wantv]:
        ctx.fail(sig + '/readback', case, {'expected': str(wantv), 'got': [str(t) for t in C.values(z)]})


def check_infer(ctx, case):
    fmt, s, b, us = case_values(case)
    u = us[0]
    F = C.Fxp()
    if not exact_ok(u, s, b):
        ctx.cls('skipped:inexact-pretransform')
        return
    signed = case['signed']
    sg = True if signed is None else signed
    if not sg:
        u = abs(u)
    v = u * s + b
    if not exact_ok(u, s, b):
        return
    ctx.ev()
    ctx.cls('infer')
    want = M.minimal_format([u], sg)
    if want[1] > 60:
        return
    sig = 'infer'
    kw = dict(scale=num(s, case['scale_float']), bias=num(b, case['bias_float']))
    if signed is not None:
        kw['signed'] = signed
    ok, x = ctx.guard(case, lambda: F(float(v), **kw), sig_prefix=sig + '/')
    if not ok:
        return
    if C.fmt_of(x) != want:
        ctx.fail(sig + '/format', case, {'u': str(u), 'expected': want, 'got': C.fmt_of(x)})
        return
    if want[1] >= 1:
        k = C.codes(x)
        if M.value_of(k, want[2]) != u or any(C.flags(x)):
            ctx.fail(sig + '/not-exact', case, {'u': str(u), 'code': k, 'flags': C.flags(x)})
            return
        if M.is_double(v) and C.values(x)[0] != v:
            ctx.fail(sig + '/readback', case, {'v': str(v), 'got': str(C.values(x)[0])})


CHECKS = {'affine': check_affine, 'infer': check_infer, 'affine-out': check_affine_out}


def replay(ctx, case):
    CHECKS[case['check']](ctx, case)


@st.composite
def st_case(draw, infer=False):
    fmt = draw(C.st_fmt(max_w=16))
    sc = draw(st.sampled_from(SCALES))
    bi = (draw(st.one_of(st.integers(-40, 40), st.sampled_from([100, -100, 127, -128, 200, -200, 300, -300, 1000]))), draw(st.sampled_from([0, 0, 1, 2, 3])))
    if draw(st.integers(0, 5)) == 0:
        bi = (0, 0)
    n = draw(st.integers(1, 5))
    s = Fraction(sc[0], 1 << sc[1])
    b = Fraction(bi[0], 1 << bi[1])
    x4s = []
    for _ in range(n):
        x4 = draw(C.st_x4(fmt, limit_bits=40))
        # construction: drop low bits until the float pre-transform is exact
        for bits in (53, 40, 30, 24, 16, 8, 2):
            x4c = C.clamp_sig_bits(x4, bits)
            if exact_ok(C.v_from_x4(x4c, fmt[2]), s, b):
                x4 = x4c
                break
        x4s.append(x4)
    case = {'check': 'infer' if infer else 'affine', 'fmt': list(fmt), 'mode': list(draw(C.st_modes())), 'scale': list(sc), 'bias': list(bi),
            'x4s': x4s, 'route': draw(st.sampled_from(['ctor', 'ctor-like', 'call', 'set_val', 'setitem', 'like-method'])), 'shape': draw(st.sampled_from(['scalar', 'array'])),
            'scale_float': draw(st.booleans()), 'bias_float': draw(st.booleans()), 'signed': draw(st.sampled_from([None, True, False])),
            'carrier': draw(st.sampled_from(['float', 'float', 'int', 'list-int', 'tuple-int', 'list-float', 'np-int', 'np-narrow', 'np-uint64', 'fxp', 'fxp'])),
            'u64': draw(st.sampled_from(['array', 'list'])),
            'bias_np32': draw(st.booleans())}
    return case


def body(ctx, case):
    fmt, s, b, us = case_values(case)
    if case['shape'] == 'scalar':
        us = us[:1]
    else:
        ctx.cls('array')
    lo, hi = M.rng(fmt[0], fmt[1])
    nt = False
    for u in us:
        xs = M.scaled(u, fmt[2])
        if xs.denominator == 2:
            ctx.cls('tie')
        if xs > hi or xs < lo:
            ctx.cls('overflow')
        if s != 1 and b != 0 and (xs.denominator != 1 or xs > hi or xs < lo):
            nt = True
    if s < 0:
        ctx.cls('negative-scale')
    if nt:
        ctx.cls('nontrivial')
        ctx.nontrivial(('aff', repr(sorted((k, repr(v)) for k, v in case.items()))))
    ctx.sample(case, nt)
    check_affine(ctx, case)


def body_infer(ctx, case):
    # inference needs a dyadic u with few fraction bits: keep the grid value but cap n_frac
    fmt = list(case['fmt'])
    fmt[2] = min(max(fmt[2], -4), 12)
    case = dict(case, fmt=fmt)
    ctx.nontrivial(('inf', repr(sorted((k, repr(v)) for k, v in case.items()))))
    ctx.sample(case, True)
    check_infer(ctx, case)


@st.composite
def st_out_case(draw):
    case = draw(st_case())
    case.update(check='affine-out', out_route=draw(st.sampled_from(['out', 'out_like', 'numpy-out', 'store-call', 'scaled-operand'])), split=draw(st.integers(-9, 9)))
    return case


def body_out(ctx, case):
    ctx.nontrivial(('affout', repr(sorted((k, repr(v)) for k, v in case.items()))))
    ctx.sample(case, True)
    check_affine_out(ctx, case)


def task_hyp(ctx, which, n):
    if which == 'affine-out':
        return run_given(ctx, st_out_case(), body_out, n, ctx.task_seed)
    if which == 'affine':
        run_given(ctx, st_case(), body, n, ctx.task_seed)
    else:
        run_given(ctx, st_case(infer=True), body_infer, n, ctx.task_seed)


def tasks(tier, scale=1.0):
    nh = int((2500 if tier == 'quick' else 40000) * scale)
    out = [('hyp-affine-%d' % i, 'task_hyp', {'which': 'affine', 'n': nh}) for i in range(13)]
    out += [('hyp-infer-%d' % i, 'task_hyp', {'which': 'infer', 'n': nh // 2}) for i in range(3)]
    out += [('hyp-affine-out-%d' % i, 'task_hyp', {'which': 'affine-out', 'n': nh // 2}) for i in range(2)]
    return out
