#!/venv/bin/python
"""Fill the generated tables of DESIGN.md (mutant results, seeded changes) from tools/mutants results and seeded/*/meta.json."""
import glob, json, os, re, sys
HERE = os.path.dirname(os.path.dirname(os.path.abspath(__file__)))
doc = open(os.path.join(HERE, 'DESIGN.md')).read()


def put(doc, tag, text):
    a, b = '<!-- %s-BEGIN -->' % tag, '<!-- %s-END -->' % tag
    i, j = doc.index(a) + len(a), doc.index(b)
    return doc[:i] + '\n' + text + '\n' + doc[j:]


rows = ['| seeded change | breaks | what it needs to manifest | detected by (quick tier) |', '|---|---|---|---|']
for m in sorted(glob.glob(os.path.join(HERE, 'seeded', '*', 'meta.json'))):
    d = json.load(open(m))
    name = os.path.basename(os.path.dirname(m))
    needs = ' '.join(d.get('needs_short', d.get('needs_to_manifest', '')).split())
    if len(needs) > 260:
        needs = needs[:257] + '...'
    rows.append('| %s | %s | %s | %s |' % (name, d['breaks_property'], needs.replace('|', '/'), ', '.join(d.get('detected_by', [])) or '**none**'))
doc = put(doc, 'SEEDED-TABLE', '\n'.join(rows))

mp = os.path.join(HERE, 'tools', 'mutation_results.json')
if os.path.exists(mp):
    res = json.load(open(mp))
    by = {}
    for r in res:
        for p, rr in r.get('results', {}).items():
            k = by.setdefault(p, [0, 0, []])
            k[1] += 1
            if rr['exit'] == 1 and rr['violations'] > 0:
                k[0] += 1
            else:
                k[2].append(r['name'])
    rows = ['| check | mutants killed / run | alive |', '|---|---|---|']
    for p in sorted(by):
        rows.append('| %s | %d / %d | %s |' % (p, by[p][0], by[p][1], ', '.join(by[p][2]) or '-'))
    tot = sum(v[0] for v in by.values()), sum(v[1] for v in by.values())
    rows.append('| **total** | **%d / %d** | |' % tot)
    doc = put(doc, 'MUTANT-TABLE', '\n'.join(rows))
open(os.path.join(HERE, 'DESIGN.md'), 'w').write(doc)
print('tables written')
