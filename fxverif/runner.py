"""Runner: task sharding, seeding, evidence, replay, known findings, exit codes.

Exit protocol: 0 = property held on everything explored (known findings are
reported as KNOWN-FINDING lines); 1 = at least one violation that is not a
listed finding (one ``VIOLATION property=<id> replay=<path>`` line per distinct
signature); 2 = harness error or inconclusive run (never a VIOLATION line).
"""
import argparse
import collections
import copy
import glob
import importlib
import json
import multiprocessing as mp
import os
import sys
import time
import traceback

ROOT = os.path.dirname(os.path.dirname(os.path.abspath(__file__)))
REPO = os.path.abspath(os.environ.get('FXP_REPO', '/repo'))
N_PROCS = int(os.environ.get('VERIF_PROCS', '16'))
MAX_SAMPLES = 14


class HarnessError(Exception):
    pass


class _Abort(BaseException):
    """Raised inside a shrinking pass to stop Hypothesis once the budget is used."""


def import_fxpmath():
    """Import fxpmath from the working tree named by FXP_REPO and prove it."""
    if REPO not in sys.path:
        sys.path.insert(0, REPO)
    import warnings
    warnings.simplefilter('ignore')
    import numpy as np
    np.seterr(all='ignore')
    import fxpmath
    here = os.path.dirname(os.path.abspath(fxpmath.__file__))
    if os.path.dirname(here) != REPO:
        raise HarnessError('fxpmath imported from %s, expected %s' % (here, REPO))
    return fxpmath


def in_repo_traceback(tb):
    """Innermost frame of tb that lies in the code under test, or None."""
    hit = None
    for fs in traceback.extract_tb(tb):
        fn = os.path.abspath(fs.filename)
        if fn.startswith(os.path.join(REPO, 'fxpmath') + os.sep):
            hit = fs
    return hit


def jsonable(o):
    """Best-effort conversion of a case/detail to JSON-serialisable data."""
    from fractions import Fraction
    if isinstance(o, (str, bool, type(None))):
        return o
    if isinstance(o, int):
        return o if abs(o) < 2 ** 53 else {'int': str(o)}
    if isinstance(o, float):
        return o if o == o and abs(o) != float('inf') else repr(o)
    if isinstance(o, Fraction):
        return {'frac': [str(o.numerator), str(o.denominator)]}
    if isinstance(o, dict):
        return {str(k): jsonable(v) for k, v in o.items()}
    if isinstance(o, (list, tuple, set, frozenset)):
        return [jsonable(v) for v in o]
    try:
        import numpy as np
        if isinstance(o, np.generic):
            return jsonable(o.item())
        if isinstance(o, np.ndarray):
            return jsonable(o.tolist())
    except Exception:
        pass
    return repr(o)


def unjson(o):
    """Inverse of jsonable for the tagged big-int / Fraction encodings."""
    from fractions import Fraction
    if isinstance(o, dict):
        if set(o) == {'int'}:
            return int(o['int'])
        if set(o) == {'frac'}:
            return Fraction(int(o['frac'][0]), int(o['frac'][1]))
        return {k: unjson(v) for k, v in o.items()}
    if isinstance(o, list):
        return [unjson(v) for v in o]
    return o


class Ctx:
    """Per-task recorder of what was explored and what failed."""

    def __init__(self, prop, tier, seed, task=''):
        self.prop, self.tier, self.seed, self.task = prop, tier, seed, task
        self.evaluations = 0
        self.nt = set()
        self.nt_enum = 0
        self.classes = collections.Counter()
        self.samples = []
        self.nt_samples = []
        self.failures = {}          # sig -> dict(count, case, detail)
        self.replay_fn = None       # set by the task runner: used to validate recorded cases
        self.entry_case = None      # case the outermost check_* function was entered with
        self._depth = 0
        self.target_sig = None      # shrinking pass: raise on this signature
        self.last_target_case = None
        self.deadline = None

    # -- coverage accounting
    def ev(self, n=1):
        self.evaluations += n

    def nontrivial(self, key):
        self.nt.add(hash(key))

    def nontrivial_enum(self, n=1):
        """Count n non-trivial cases of an enumeration that visits each case once."""
        self.nt_enum += n

    def cls(self, name, n=1):
        self.classes[name] += n

    def sample(self, case, nontrivial=False):
        tgt = self.nt_samples if nontrivial else self.samples
        if len(tgt) < 4:
            tgt.append(jsonable(case))

    # -- failures
    def _reproduces(self, sig, case):
        if self.replay_fn is None:
            return True
        sub = Ctx(self.prop, self.tier, self.seed, task='validate')
        try:
            self.replay_fn(sub, unjson(jsonable(case)))
        except BaseException:                           # noqa: BLE001
            return False
        return sig in sub.failures

    def fail(self, sig, case, detail):
        sig = str(sig)
        rec = self.failures.get(sig)
        if rec is None:
            # a check may hand in a reduced case (one element of an array, one route of several): keep it only if
            # it reproduces the same signature on its own, else fall back to the case the check was entered with
            chosen, note = case, None
            if self.replay_fn is not None and self.target_sig is None:
                if not self._reproduces(sig, case):
                    if self.entry_case is not None and self._reproduces(sig, self.entry_case):
                        chosen = self.entry_case
                    else:
                        chosen, note = (self.entry_case if self.entry_case is not None else case), 'not reproduced in isolation'
            self.failures[sig] = {'count': 1, 'case': jsonable(chosen), 'detail': jsonable(detail), 'task': self.task}
            if note:
                self.failures[sig]['note'] = note
        else:
            rec['count'] += 1
        if self.target_sig is not None and sig == self.target_sig:
            self.last_target_case = jsonable(case)
            raise AssertionError('target signature reproduced: ' + sig)

    def guard(self, case, fn, *a, sig_prefix='', **k):
        """Run fn; an exception raised from inside the code under test becomes a
        failure bucketed by (type, innermost fxpmath frame); anything else is a
        harness error and propagates."""
        try:
            return True, fn(*a, **k)
        except (AssertionError, _Abort):
            raise
        except Exception as e:                          # noqa: BLE001
            fs = in_repo_traceback(e.__traceback__)
            if fs is None:
                raise
            sig = '%sexception:%s@%s:%s' % (sig_prefix, type(e).__name__, os.path.basename(fs.filename), fs.name)
            self.fail(sig, case, {'exception': repr(e)[:300], 'line': fs.lineno})
            return False, None

    def check_deadline(self):
        if self.deadline is not None and time.time() > self.deadline:
            raise _Abort()

    def export(self):
        return {
            'evaluations': self.evaluations, 'nt': list(self.nt), 'nt_enum': self.nt_enum,
            'classes': dict(self.classes), 'samples': self.samples, 'nt_samples': self.nt_samples,
            'failures': self.failures, 'task': self.task,
        }


# ------------------------------------------------------------------ hypothesis helpers
def wrap_checks(g):
    """Wrap every check_* function of a property module so that the outermost call records its case."""
    import functools

    def entry(fn):
        @functools.wraps(fn)
        def w(ctx, case, *a, **k):
            if ctx._depth == 0:
                ctx.entry_case = case
            ctx._depth += 1
            try:
                return fn(ctx, case, *a, **k)
            except (AssertionError, _Abort):
                raise
            except Exception as e:                      # noqa: BLE001
                # an exception raised by the code under test outside an explicit guard is a failure of that case,
                # not a harness error (only at the outermost check call, so the whole case is recorded)
                fs = in_repo_traceback(e.__traceback__)
                if fs is None or ctx._depth != 1:
                    raise
                ctx.fail('%s/unguarded-exception:%s@%s:%s' % (fn.__name__, type(e).__name__, os.path.basename(fs.filename), fs.name),
                         case, {'exception': repr(e)[:300], 'line': fs.lineno})
            finally:
                ctx._depth -= 1
        w._wrapped = True
        return w
    checks = g.get('CHECKS', {})
    targets = {id(v) for v in checks.values()}
    wrapped = {}
    for name, fn in list(g.items()):
        if callable(fn) and id(fn) in targets and not getattr(fn, '_wrapped', False):
            wrapped[id(fn)] = g[name] = entry(fn)
    g['CHECKS'] = {k: wrapped.get(id(v), v) for k, v in checks.items()}


def hyp_settings(n, shrink=False):
    import hypothesis
    from hypothesis import settings, HealthCheck, Phase
    phases = [Phase.generate] + ([Phase.shrink] if shrink else [])
    return settings(max_examples=n, database=None, deadline=None, derandomize=False,
                    report_multiple_bugs=False, phases=phases,
                    suppress_health_check=list(HealthCheck), print_blob=False)


def run_given(ctx, strategy, body, n, seed):
    """Drive body(ctx, case) over n Hypothesis examples.

    Collect mode (ctx.target_sig is None): body records failures through
    ctx.fail and never raises, so one run surveys every signature.  Shrink mode:
    ctx.fail raises on the target signature and Hypothesis shrinks it."""
    import hypothesis
    from hypothesis import given
    shrink = ctx.target_sig is not None

    @hypothesis.seed(seed)
    @hyp_settings(n, shrink=shrink)
    @given(strategy)
    def t(case):
        ctx.check_deadline()
        body(ctx, case)

    try:
        t()
    except AssertionError:
        if not shrink:
            raise
    except _Abort:
        pass


def run_machine(ctx, machine_cls, n, steps, seed):
    import hypothesis
    from hypothesis import settings
    from hypothesis.stateful import run_state_machine_as_test
    shrink = ctx.target_sig is not None
    s = settings(hyp_settings(n, shrink=shrink), stateful_step_count=steps)
    machine_cls.ctx = ctx
    try:
        run_state_machine_as_test(hypothesis.seed(seed)(machine_cls), settings=s)
    except AssertionError:
        if not shrink:
            raise
    except _Abort:
        pass


# ------------------------------------------------------------------ task execution
def _load(prop):
    mod = importlib.import_module('fxverif.props.' + prop.lower())
    wrap_checks(mod.__dict__)
    return mod


def _task_seed(seed, idx):
    return (seed * 1000003 + idx * 7919 + 17) % (2 ** 31)


_COV = {'lines': set(), 'on': False}


def _cov_start():
    """Opt-in (VERIF_COV=<dir>) line coverage of the library under test, used to find input classes no generator reaches
    (tools/coverage_gaps.py).  Never active in a registered command."""
    d = os.environ.get('VERIF_COV')
    if not d or _COV['on'] or not hasattr(sys, 'monitoring'):
        return
    mon, tid = sys.monitoring, sys.monitoring.COVERAGE_ID
    root = os.path.join(os.path.abspath(os.environ.get('FXP_REPO', '/repo')), 'fxpmath')
    lines = _COV['lines']

    def on_line(code, line):
        if code.co_filename.startswith(root):
            lines.add((os.path.basename(code.co_filename), line))
        return mon.DISABLE
    try:
        mon.use_tool_id(tid, 'fxverif-cov')
    except ValueError:
        pass
    mon.register_callback(tid, mon.events.LINE, on_line)
    mon.set_events(tid, mon.events.LINE)
    _COV['on'] = True


def _cov_dump(tag):
    d = os.environ.get('VERIF_COV')
    if d and _COV['on']:
        os.makedirs(d, exist_ok=True)
        with open(os.path.join(d, '%s.%d.json' % (tag.replace('/', '_'), os.getpid())), 'w') as f:
            json.dump(sorted(_COV['lines']), f)


def _run_task(arg):
    prop, tier, seed, idx, name, fn_name, kwargs, target_sig, budget = arg
    t0 = time.time()
    try:
        _cov_start()
        import_fxpmath()
        mod = _load(prop)
        ctx = Ctx(prop, tier, seed, task=name)
        ctx.task_seed = _task_seed(seed, idx)
        ctx.replay_fn = mod.replay
        if target_sig is not None:
            ctx.target_sig = target_sig
            ctx.deadline = time.time() + budget
        try:
            getattr(mod, fn_name)(ctx, **kwargs)
        except AssertionError:
            if target_sig is None:
                raise
        except _Abort:
            pass
        out = ctx.export()
        out['last_target_case'] = ctx.last_target_case
        out['wall'] = time.time() - t0
        _cov_dump('%s.%s' % (prop, name))
        return out
    except BaseException as e:                          # noqa: BLE001
        return {'harness_error': '%s in task %s: %s\n%s' % (type(e).__name__, name, e, traceback.format_exc())}


def replay_case(prop, case):
    """Re-execute one saved case without Hypothesis.  Returns {sig: record}."""
    import_fxpmath()
    mod = _load(prop)
    ctx = Ctx(prop, 'replay', 0, task='replay')
    mod.replay(ctx, unjson(case))
    return ctx.failures


def _match_known(known, prop, sig):
    for k in known:
        if k.get('property') == prop and k.get('status') == 'finding' and sig.startswith(k['signature']):
            return k
    return None


def load_known():
    p = os.path.join(ROOT, 'known_findings.json')
    if not os.path.exists(p):
        return []
    with open(p) as f:
        return json.load(f)['entries']


def ddmin_steps(prop, case, sig, budget_s=10.0):
    """Delta-debug the 'steps' of a history case by replaying it (objects are addressed modulo the pool size, so any
    sub-sequence is executable).  Returns the smallest failing case found within the budget."""
    steps = case.get('steps') if isinstance(case, dict) else None
    if not isinstance(steps, list) or len(steps) < 2:
        return case
    t_end = time.time() + budget_s

    def fails(st_):
        if time.time() > t_end:
            return False
        try:
            return sig in replay_case(prop, dict(case, steps=st_))
        except BaseException:                           # noqa: BLE001
            return False
    if not fails(steps):
        return case
    chunk = max(len(steps) // 2, 1)
    while chunk >= 1 and time.time() < t_end:
        i = 0
        while i < len(steps) and time.time() < t_end:
            cand = steps[:i] + steps[i + chunk:]
            if cand and fails(cand):
                steps = cand
            else:
                i += chunk
        chunk //= 2
    return dict(case, steps=steps)


# ------------------------------------------------------------------ main
def main(argv=None):
    ap = argparse.ArgumentParser(prog='check')
    ap.add_argument('prop')
    ap.add_argument('--tier', default=os.environ.get('VERIF_TIER', 'quick'), choices=['quick', 'thorough'])
    ap.add_argument('--replay', default=None)
    ap.add_argument('--only', default=None, help='run only tasks whose name contains this')
    ap.add_argument('--scale', type=float, default=float(os.environ.get('VERIF_SCALE', '1')))
    args = ap.parse_args(argv)
    prop = args.prop.upper()
    seed = int(os.environ.get('VERIF_SEED', '1') or 1)
    t0 = time.time()
    _cov_start()

    try:
        import_fxpmath()
        mod = _load(prop)
    except BaseException as e:                          # noqa: BLE001
        print('HARNESS-ERROR: %s' % e, file=sys.stderr)
        traceback.print_exc()
        return 2

    known = load_known()

    if args.replay:
        with open(args.replay) as f:
            doc = json.load(f)
        try:
            fails = replay_case(prop, doc['case'])
        except BaseException:                           # noqa: BLE001
            traceback.print_exc()
            return 2
        real = 0
        for sig, rec in fails.items():
            k = _match_known(known, prop, sig)
            if k:
                print('KNOWN-FINDING: property=%s %s' % (prop, k['what']))
            else:
                real += 1
                print('VIOLATION property=%s replay=%s' % (prop, args.replay))
                print('  signature: %s\n  detail: %s' % (sig, json.dumps(rec['detail'])[:600]))
        if not fails:
            print('replay: no violation reproduced')
        return 1 if real else 0

    # ---- build the task list: corpus replay first, then generated search
    tasks = mod.tasks(args.tier, args.scale)
    if args.only:
        tasks = [t for t in tasks if args.only in t[0]]
    jobs = [(prop, args.tier, seed, i, name, fn, kw, None, 0) for i, (name, fn, kw) in enumerate(tasks)]

    merged = {'evaluations': 0, 'nt': set(), 'nt_enum': 0, 'classes': collections.Counter(),
              'samples': [], 'nt_samples': [], 'failures': {}, 'task_wall': {}}
    harness_errors = []

    # corpus (seconds-long tier): every saved case is replayed first
    corpus_files = sorted(glob.glob(os.path.join(ROOT, 'corpus', prop, '*.json')))
    corpus_n = 0
    _cov_start()
    for cf in corpus_files:
        try:
            with open(cf) as f:
                doc = json.load(f)
            fails = replay_case(prop, doc['case'])
            corpus_n += 1
            merged['evaluations'] += 1
            for sig, rec in fails.items():
                rec = dict(rec, task='corpus:' + os.path.basename(cf), job=None)
                merged['failures'].setdefault(sig, rec)
        except BaseException as e:                      # noqa: BLE001
            harness_errors.append('corpus %s: %s' % (cf, traceback.format_exc()))

    _cov_dump('%s.corpus' % prop)
    ctxmp = mp.get_context('fork')
    with ctxmp.Pool(min(N_PROCS, max(1, len(jobs)))) as pool:
        for job, out in zip(jobs, pool.imap(_run_task, jobs, chunksize=1)):
            if 'harness_error' in out:
                harness_errors.append(out['harness_error'])
                continue
            merged['evaluations'] += out['evaluations']
            merged['nt'].update(out['nt'])
            merged['nt_enum'] += out['nt_enum']
            merged['classes'].update(out['classes'])
            merged['task_wall'][out['task']] = round(out['wall'], 2)
            for key in ('samples', 'nt_samples'):
                for s in out[key]:
                    if len(merged[key]) < MAX_SAMPLES:
                        merged[key].append(s)
            for sig, rec in out['failures'].items():
                if sig in merged['failures']:
                    merged['failures'][sig]['count'] += rec['count']
                else:
                    merged['failures'][sig] = dict(rec, job=job)

        # ---- classify failures, shrink the new ones
        violations, findings = [], []
        for sig, rec in sorted(merged['failures'].items()):
            k = _match_known(known, prop, sig)
            if k:
                findings.append((k, sig, rec))
                continue
            case = rec['case']
            job = rec.get('job')
            max_shrinks = 3 if args.tier == 'quick' else 8
            if (job is not None and getattr(mod, 'HYP_SHRINK', True) and os.environ.get('VERIF_NO_SHRINK') != '1'
                    and len(violations) < max_shrinks):
                budget = 25 if args.tier == 'quick' else 120
                sjob = job[:7] + (sig, budget)
                try:
                    out = pool.apply_async(_run_task, (sjob,)).get(timeout=budget + 60)
                    if out.get('last_target_case') is not None:
                        case = out['last_target_case']
                except BaseException:                   # noqa: BLE001
                    pass
            if os.environ.get('VERIF_NO_SHRINK') != '1' and len(violations) < 12:
                case = ddmin_steps(prop, case, sig, 8.0 if args.tier == 'quick' else 30.0)
            violations.append((sig, rec, case))

    os.makedirs(os.path.join(ROOT, 'replays', prop), exist_ok=True)
    printed = set()
    for k, sig, rec in findings:
        if k['signature'] not in printed:
            printed.add(k['signature'])
            print('KNOWN-FINDING: property=%s %s' % (prop, k['what']))
    vio_out = []
    for i, (sig, rec, case) in enumerate(violations):
        safe = ''.join(ch if ch.isalnum() else '_' for ch in sig)[:80]
        path = os.path.join('replays', prop, '%s_%s.json' % (args.tier, safe))
        # confirm the (possibly shrunk) case still reproduces; else keep the original
        try:
            if sig not in replay_case(prop, case):
                case = rec['case']
        except BaseException:                           # noqa: BLE001
            case = rec['case']
        with open(os.path.join(ROOT, path), 'w') as f:
            json.dump({'property': prop, 'signature': sig, 'case': case, 'detail': rec['detail'],
                       'count': rec['count'], 'task': rec.get('task'), 'seed': seed, 'tier': args.tier}, f, indent=1)
        print('VIOLATION property=%s replay=%s' % (prop, path))
        print('  signature: %s (x%d)\n  detail: %s' % (sig, rec['count'], json.dumps(rec['detail'])[:500]))
        vio_out.append({'signature': sig, 'replay': path, 'count': rec['count']})

    # ---- generator health: required classes must be populated
    health = []
    need = getattr(mod, 'REQUIRED_CLASSES', {})
    if not args.only:
        for cname, minimum in need.items():
            if merged['classes'].get(cname, 0) < minimum:
                health.append('class %r has %d cases, needs >= %d' % (cname, merged['classes'].get(cname, 0), minimum))

    distinct_nt = len(merged['nt']) + merged['nt_enum']
    wall = time.time() - t0
    evidence = {
        'property_id': prop, 'tier': args.tier, 'seed': seed, 'level': 'exploration',
        'coverage': {
            'evaluations': merged['evaluations'],
            'distinct_nontrivial': distinct_nt,
            'rule': mod.RULE,
            'samples': (merged['nt_samples'] + merged['samples'])[:MAX_SAMPLES],
            'exhaustive': bool(getattr(mod, 'EXHAUSTIVE', False)),
            'exhaustive_subdomains': getattr(mod, 'EXHAUSTIVE_SUBDOMAINS', {}).get(args.tier, []),
            'classes': dict(sorted(merged['classes'].items())),
            'corpus_cases_replayed': corpus_n,
            'tasks': len(jobs),
            'task_wall_s': merged['task_wall'],
            'known_findings_reproduced': [{'signature': s, 'count': r['count'], 'what': k['what']} for k, s, r in findings],
            'excluded_by_known_finding': sum(r['count'] for _, _, r in findings),
            'violations_found': vio_out,
            'generator_health': health,
            'repo': REPO,
        },
        'assumptions': list(getattr(mod, 'ASSUMPTIONS', [])),
        'wall_s': round(wall, 2),
        'violations': len(vio_out),
    }
    if not args.only and os.environ.get('VERIF_NO_EVIDENCE') != '1':
        os.makedirs(os.path.join(ROOT, 'evidence'), exist_ok=True)
        with open(os.path.join(ROOT, 'evidence', prop + '.json'), 'w') as f:
            json.dump(evidence, f, indent=1)

    print('%s tier=%s seed=%d evaluations=%d distinct_nontrivial=%d violations=%d known=%d wall=%.1fs'
          % (prop, args.tier, seed, merged['evaluations'], distinct_nt, len(vio_out), len(findings), wall))
    if harness_errors:
        for h in harness_errors:
            print('HARNESS-ERROR: ' + h, file=sys.stderr)
        return 2 if not vio_out else 1
    if vio_out:
        return 1
    if health:
        for h in health:
            print('INCONCLUSIVE (generator health): ' + h, file=sys.stderr)
        return 2
    return 0


if __name__ == '__main__':
    sys.exit(main())
