"""C19 - no silent wrap at the 64-bit machine boundary in arithmetic or in storing."""
from fractions import Fraction
import numpy as np
from hypothesis import strategies as st

from .. import model as M
from .. import common as C
from ..runner import run_given
from .c07 import res_fmt, exact_code, apply_op
from .c01 import store, stored_codes

PROPERTY = 'C19'
RULE = ("(a) x+y, x-y, x*y with optimal sizing for operand words 2..70 (weights on 26,27,31,32,33,52,53,60,62,63,64,65,70), any n_frac 0..n_word, every signedness mix, codes at / next to the extremes and random, "
        "results up to 256 bits: result format == growth rule, codes == exact integer arithmetic, held exactly (no float), no overflow/underflow flag; scalars and small arrays; operator, fxpmath.* and numpy routes. "
        "Cases are classified from the INPUTS (storage kinds of the operands: machine int64 / uint64 / python-int object; width of the aligned intermediate: <54, 54-63, >=64). "
        "(b) scalar python integers up to 2^1000 into formats of 1..52 bits with 0<=n_frac<=n_word+3 by constructor, call, set_val and indexed assignment, both overflow modes, rounding trunc/floor/around: "
        "code, overflow and underflow flags equal the reference model. Non-trivial = some intermediate needs >=54 bits; distinct = distinct case keys.")
ASSUMPTIONS = ['operands are created from raw codes', 'the inaccuracy flag is not asserted (wide formats compute it in floating point)']
EXHAUSTIVE = False
REQUIRED_CLASSES = {'interm:54-63': 1000, 'interm:>=64': 1000, 'kinds:int64-uint64': 500, 'kinds:object-machine': 500, 'kinds:object-object': 200,
                    'store:scaled>=2^63': 1000, 'store:scaled>=2^64': 500, 'store:v>=2^63': 500}
OPS = ('add', 'sub', 'mul')
W_FAV = [26, 27, 31, 32, 33, 52, 53, 60, 62, 63, 64, 65, 70]


def kind_of(fmt):
    return 'object' if fmt[1] >= 64 else ('int64' if fmt[0] else 'uint64')


def interm_bits(op, fx, fy):
    fz = res_fmt(op, fx, fy)
    if op == 'mul':
        return fx[1] + fy[1]
    return max(fx[1] + fz[2] - fx[2], fy[1] + fz[2] - fy[2]) + 1


def input_class(op, fx, fy):
    kx, ky = sorted([kind_of(fx), kind_of(fy)])
    kinds = 'object-object' if kx == ky == 'object' else 'object-machine' if 'object' in (kx, ky) else '%s-%s' % (kx, ky)
    ib = interm_bits(op, fx, fy)
    bucket = '<54' if ib < 54 else '54-63' if ib < 64 else '>=64'
    return kinds, bucket


def check_arith(ctx, case):
    fx, fy = tuple(case['fx']), tuple(case['fy'])
    op, route = case['op'], case.get('route', 'operator')
    kxs, kys = [int(k) for k in case['kx']], [int(k) for k in case['ky']]
    scalar = case.get('scalar', True)
    F = C.Fxp()
    fz = res_fmt(op, fx, fy)
    lo, hi = M.rng(fz[0], fz[1])
    kinds, bucket = input_class(op, fx, fy)
    sig = 'arith/%s/%s/interm%s' % (op, kinds, bucket)
    ctx.ev(len(kxs))

    def do():
        if scalar:
            x = F(kxs[0], fx[0], fx[1], fx[2], raw=True)
            y = F(kys[0], fy[0], fy[1], fy[2], raw=True)
        else:
            x = F(np.array(kxs, dtype=object), fx[0], fx[1], fx[2], raw=True)
            y = F(np.array(kys, dtype=object), fy[0], fy[1], fy[2], raw=True)
        if C.flat(C.codes(x)) != (kxs[:1] if scalar else kxs) or C.flat(C.codes(y)) != (kys[:1] if scalar else kys):
            raise AssertionError('harness: operand codes not stored as given')
        return apply_op(op, route, x, y)
    ok, z = ctx.guard(case, do, sig_prefix=sig + '/')
    if not ok:
        return
    if C.fmt_of(z) != (bool(fz[0]), fz[1], fz[2]):
        ctx.fail(sig + '/format', case, {'expected': fz, 'got': C.fmt_of(z)})
        return
    try:
        got = C.flat(C.codes(z))
    except ValueError as e:
        ctx.fail(sig + '/non-integer-code', case, {'error': str(e)})
        return
    n = 1 if scalar else len(kxs)
    neg_unsigned = False
    for i in range(n):
        e = exact_code(op, fx, fy, kxs[i], kys[i])
        if op == 'sub' and not fx[0] and not fy[0] and e < 0:
            neg_unsigned = True
            e = 0
        elif not lo <= e <= hi:
            ctx.fail(sig + '/model-growth-rule-too-small', case, {'exact': str(e), 'fmt': fz})
            return
        if got[i] != e:
            ctx.fail(sig + '/value', case, {'kx': str(kxs[i]), 'ky': str(kys[i]), 'expected': str(e), 'got': str(got[i]), 'res_fmt': fz})
            return
    o, u, _ = C.flags(z)
    if o or (u != neg_unsigned):
        ctx.fail(sig + '/flags', case, {'flags': [o, u]})


def check_store(ctx, case):
    fmt = tuple(case['fmt'])
    s, w, f = fmt
    mode = tuple(case['mode'])
    v = int(case['v'])
    route = case['route']
    lo, hi = M.rng(s, w)
    ek, eo, eu, _ = M.quant(v, s, w, f, mode[0], mode[1])
    ctx.ev()
    sc = abs(v) << f
    cls = 'scaled>=2^64' if sc >= 1 << 64 else 'scaled>=2^63' if sc >= 1 << 63 else 'scaled>=2^62' if sc >= 1 << 62 else 'scaled<2^62'
    sig = 'store/%s/%s/%s' % (route, cls, mode[1])
    ok, res = ctx.guard(case, store, fmt, mode, v, route, 'scalar', 1, (1, 1), sig_prefix=sig + '/')
    if not ok:
        return
    x, sel = res
    try:
        k = stored_codes(x, sel)[0]
    except ValueError as e:
        ctx.fail(sig + '/non-integer-code', case, {'error': str(e)})
        return
    if k != ek:
        ctx.fail('%s/code/%s' % (sig, 'pos' if v > 0 else 'neg'), case, {'v_bits': v.bit_length(), 'expected': ek, 'got': k})
        return
    o, u, _ = C.flags(x)
    if (o, u) != (eo, eu):
        ctx.fail('%s/flags/%s' % (sig, 'pos' if v > 0 else 'neg'), case, {'expected': [eo, eu], 'got': [o, u]})


CHECKS = {'arith': check_arith, 'store': check_store}


def replay(ctx, case):
    CHECKS[case['check']](ctx, case)


@st.composite
def st_fmt19(draw):
    w = draw(st.one_of(st.sampled_from(W_FAV), st.integers(2, 70)))
    s = draw(st.booleans())
    f = draw(st.one_of(st.sampled_from([0, 1, w // 2, w - 1, w]), st.integers(0, w)))
    return (s, w, f)


@st.composite
def st_code19(draw, fmt):
    lo, hi = M.rng(fmt[0], fmt[1])
    kind = draw(st.sampled_from(['ext', 'ext', 'near', 'rand', 'p53']))
    if kind == 'ext':
        return draw(st.sampled_from([lo, hi]))
    if kind == 'near':
        return min(max(draw(st.sampled_from([lo, hi])) + draw(st.integers(-3, 3)), lo), hi)
    if kind == 'p53':
        k = draw(st.sampled_from([(1 << 53) + 1, (1 << 53) - 1, (1 << 62) + 1, (1 << 63) - 1, (1 << 63) + 1, -(1 << 53) - 1, -(1 << 62) - 1]))
        return min(max(k, lo), hi)
    return draw(st.integers(lo, hi))


@st.composite
def st_arith(draw):
    fx, fy = draw(st_fmt19()), draw(st_fmt19())
    # keep the two fraction lengths within 64 bits of each other often, sometimes far apart
    op = draw(st.sampled_from(OPS))
    scalar = draw(st.booleans())
    n = 1 if scalar else draw(st.integers(1, 4))
    return {'check': 'arith', 'fx': list(fx), 'fy': list(fy), 'op': op, 'route': draw(st.sampled_from(['operator', 'operator', 'fxpmath', 'numpy'])),
            'kx': [draw(st_code19(fx)) for _ in range(n)], 'ky': [draw(st_code19(fy)) for _ in range(n)], 'scalar': scalar}


def body_arith(ctx, case):
    fx, fy = tuple(case['fx']), tuple(case['fy'])
    kinds, bucket = input_class(case['op'], fx, fy)
    ctx.cls('kinds:' + kinds)
    ctx.cls('interm:' + bucket)
    nt = bucket != '<54'
    if nt:
        ctx.nontrivial(('arith', repr(sorted((k, repr(v)) for k, v in case.items()))))
    ctx.sample(case, nt)
    check_arith(ctx, case)


@st.composite
def st_store(draw):
    w = draw(C.st_word(52, 1))
    s = draw(st.booleans())
    f = draw(st.integers(0, w + 3))
    kind = draw(st.sampled_from(['b63', 'b64', 'b62', 'huge', 'scaled63', 'inrange', 'rand']))
    if kind in ('b62', 'b63', 'b64'):
        base = 1 << int(kind[1:])
        v = (base + draw(st.integers(-3, 3))) * draw(st.sampled_from([1, -1]))
        if draw(st.booleans()):
            v = v >> f            # make the SCALED value sit at the boundary instead of the value
    elif kind == 'huge':
        v = draw(st.integers(-(1 << 1000), 1 << 1000))
    elif kind == 'scaled63':
        e = draw(st.integers(60, 70)) - f
        v = ((1 << max(e, 0)) + draw(st.integers(-2, 2))) * draw(st.sampled_from([1, -1]))
    elif kind == 'inrange':
        lo, hi = M.rng(s, w)
        v = draw(st.integers(lo, hi)) >> f
    else:
        v = draw(st.integers(-(1 << 80), 1 << 80))
    return {'check': 'store', 'fmt': [s, w, f], 'mode': [draw(st.sampled_from(['trunc', 'floor', 'around'])), draw(st.sampled_from(C.OVERFLOWS))],
            'v': v, 'route': draw(st.sampled_from(['ctor', 'call', 'set_val', 'setitem']))}


def body_store(ctx, case):
    v, f = int(case['v']), case['fmt'][2]
    sc = abs(v) << f
    if sc >= 1 << 64:
        ctx.cls('store:scaled>=2^64')
    if sc >= 1 << 63:
        ctx.cls('store:scaled>=2^63')
    if abs(v) >= 1 << 63:
        ctx.cls('store:v>=2^63')
    nt = sc >= 1 << 53
    if nt:
        ctx.nontrivial(('store', repr(sorted((k, repr(v)) for k, v in case.items()))))
    ctx.sample(case, nt)
    check_store(ctx, case)


def task_hyp(ctx, which, n):
    if which == 'arith':
        run_given(ctx, st_arith(), body_arith, n, ctx.task_seed)
    else:
        run_given(ctx, st_store(), body_store, n, ctx.task_seed)


def tasks(tier, scale=1.0):
    nh = int((2500 if tier == 'quick' else 40000) * scale)
    out = [('hyp-arith-%d' % i, 'task_hyp', {'which': 'arith', 'n': nh}) for i in range(10)]
    out += [('hyp-store-%d' % i, 'task_hyp', {'which': 'store', 'n': nh}) for i in range(6)]
    return out
