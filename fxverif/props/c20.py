"""C20 - objects are independent and inputs are never mutated."""
import copy
from fractions import Fraction
import numpy as np
from hypothesis import strategies as st

from .. import model as M
from .. import common as C
from ..runner import run_given, run_machine
from ..stateful import Mismatch, build_machine, run_history
from .c04 import resolve_rel

PROPERTY = 'C20'
RULE = ("Histories (Hypothesis rule-based state machine, JSON-replayable): objects are derived from a pool by the routes the statement names - constructor with like= / template= / Fxp(x), deepcopy(), like(), "
        "resize on a deepcopy, +,-,*,/,//,%, unary, bitwise, shifts, dispatched numpy functions and their method forms - then one object is mutated (value write, indexed write, config attribute change, "
        "flag-raising write, reset(), appended callback, overwriting the arrays returned by x(), get_val(), astype()) and snapshots (codes, format, status dict, config __dict__, callbacks) of ALL other objects must be unchanged; identity checks after each derivation: "
        "config, status, callbacks are distinct objects and value buffers do not share memory. Indexing: x[i][j]=v must write through to x (2-d, also 64+ bit words) and change nothing else. "
        "Containers: lists / nested lists / tuples / arrays of numbers and of bin/hex strings are deep-copied before construction by constructor/call/set_val/from_bin and compared after. "
        "Config: every enumerated option set to an invalid value (and numeric options to out-of-range values) through attribute, Config(...), Config.update and constructor kwargs must raise ValueError and keep the old value (exhaustive). "
        "Non-trivial = a mutation after >=2 derivations, or a container holding >=1 string; distinct = distinct histories / inputs.")
ASSUMPTIONS = ['copy(), flatten()/ravel(), T and fxp_like are documented shallow copies and are outside the statement', 'core-domain formats; arrays of at most 9 elements']
EXHAUSTIVE = False    # the whole quantifier is not enumerated; complete sub-domains are listed in EXHAUSTIVE_SUBDOMAINS
EXHAUSTIVE_SUBDOMAINS = {'quick': ['invalid values for every validated Config option x 4 setting routes'], 'thorough': ['same']}
REQUIRED_CLASSES = {'history:mutation-after-2-derivations': 100, 'derive:like_kw': 50, 'derive:arith': 100, 'derive:numpy': 50, 'derive:like': 50, 'derive:flatten': 15, 'derive:T': 15, 'derive:fxp_like': 20, 'mutate:config': 100, 'mutate:readback-array': 100,
                    'mutate:flag': 100, 'view-write': 200, 'view-write:col': 15, 'view-write:step': 15, 'view-write:rev': 15, 'container:strings': 300, 'container:strings-value-mode': 150, 'config-invalid': 40}


class Dummy:
    def on_value_change(self, obj, logs=None):
        pass


def cfg_snapshot(cfg):
    out = []
    for k, v in sorted(vars(cfg).items()):
        out.append((k, ('obj', id(v)) if hasattr(v, 'n_word') else repr(v)))
    return out


def snapshot(x):
    return {'codes': C.flat(C.codes(x)), 'shape': C.shape_of(x), 'fmt': C.fmt_of(x), 'status': dict(x.status), 'config': cfg_snapshot(x.config),
            'callbacks': [id(c) for c in x.callbacks], 'scale': x.scale, 'bias': x.bias, 'vdtype': str(x.vdtype)}


def shares(a, b):
    va, vb = a.val, b.val
    if isinstance(va, np.ndarray) and isinstance(vb, np.ndarray) and va.ndim > 0 and vb.ndim > 0:
        return bool(np.shares_memory(va, vb))
    return False


class World:
    MAX = 6

    def __init__(self):
        self.pool = []
        self.derivations = 0
        self.nontrivial = False
        self.classes = []

    def pick(self, i):
        # indices 6 and 7 address the most recently produced object, so that chains of operations on one object
        # (derive -> resize -> write ...) are generated often; the others address the pool modulo its size
        if not self.pool:
            return None
        return self.pool[-1] if i % 8 >= 6 else self.pool[i % len(self.pool)]

    def add(self, z):
        if 1 <= z.n_word <= 52 and np.asarray(z.val).dtype.kind != 'c' and z.vdtype != complex and np.asarray(z.val).size <= 9:
            if len(self.pool) >= self.MAX:
                self.pool.pop(0)
            self.pool.append(z)

    def independent(self, z, parents, where):
        for p in parents:
            if p is None or p is z:
                continue
            if z.config is p.config:
                raise Mismatch(where + '/shares-config', {})
            if z.status is p.status:
                raise Mismatch(where + '/shares-status', {})
            if z.callbacks is p.callbacks:
                raise Mismatch(where + '/shares-callbacks', {})
            if shares(z, p):
                raise Mismatch(where + '/shares-value-buffer', {})

    def apply(self, op):
        getattr(self, 'op_' + op['op'])(op)

    def op_new(self, op):
        F = C.Fxp()
        fmt, modes = tuple(op['fmt']), tuple(op['modes'])
        shape = op['shape']
        n = 1 if shape == 0 else (shape if isinstance(shape, int) else shape[0] * shape[1])
        x4s = resolve_rel(fmt, op['rel'])
        vs = ([float(C.v_from_x4(x, fmt[2])) for x in x4s] * n)[:n]
        val = vs[0] if shape == 0 else (np.array(vs) if isinstance(shape, int) else np.array(vs).reshape(shape))
        val_copy = copy.deepcopy(val)
        x = F(val, fmt[0], fmt[1], fmt[2], rounding=modes[0], overflow=modes[1])
        if isinstance(val, np.ndarray) and (not np.array_equal(val, val_copy) or (isinstance(x.val, np.ndarray) and np.shares_memory(x.val, val))):
            raise Mismatch('new/input-array-aliased', {})
        self.add(x)

    def op_derive(self, op):
        import fxpmath
        F = C.Fxp()
        x, y = self.pick(op['i']), self.pick(op['j'])
        if x is None:
            return
        route = op['route']
        before = [snapshot(p) for p in self.pool]
        parents = [x]
        z = None
        fx = C.fmt_of(x)
        v0 = 0.0 if C.shape_of(x) == () else np.zeros(C.shape_of(x))
        if route == 'like_kw':
            z = F(v0, like=x)
        elif route == 'template':
            z = F(v0, template=x)
        elif route == 'from_fxp':
            z = F(x)
        elif route == 'ctor_sizes':
            z = F(x, fx[0], min(fx[1] + 2, 52), fx[2] + 1)
        elif route in ('np_add', 'np_multiply', 'np_subtract'):
            if y is None:
                return
            sx, sy = C.shape_of(x), C.shape_of(y)
            if not (sx == sy or sx == () or sy == ()) or abs(fx[2] - C.fmt_of(y)[2]) > 50:
                return
            z = getattr(np, route[3:])(x, y)
            parents = [x, y]
        elif route == 'deepcopy':
            z = x.deepcopy()
        elif route == 'like':
            if y is None or y is x:
                return
            z = x.like(y)
            parents = [x, y]
        elif route == 'resize':
            z = x.deepcopy()
            z.resize(not fx[0], min(fx[1] + 3, 52), fx[2] + 1)
        elif route in ('flatten', 'ravel', 'T'):
            # "a copy of the Fxp with its values collapsed into one dimension" / the transposed object: new objects, like np.ravel(x) and np.transpose(x)
            if C.shape_of(x) == ():
                return
            z = x.flatten() if route == 'flatten' else x.ravel() if route == 'ravel' else x.T
        elif route == 'fxp_like':
            # the function form of like=: "New Fxp object like x"
            z = fxpmath.fxp_like(x, 0.0 if C.shape_of(x) == () else np.zeros(C.shape_of(x)))
        elif route in ('add', 'sub', 'mul', 'truediv', 'floordiv', 'mod'):
            if y is None:
                return
            sx, sy = C.shape_of(x), C.shape_of(y)
            if not (sx == sy or sx == () or sy == ()):
                return
            fy = C.fmt_of(y)
            fz = {'add': M.fmt_add, 'sub': M.fmt_add, 'mul': M.fmt_mul, 'truediv': M.fmt_truediv, 'floordiv': M.fmt_floordiv, 'mod': M.fmt_mod}[route](fx, fy)
            if not 1 <= fz[1] <= 110 or abs(fx[2] - fy[2]) > 50:
                return
            if route in ('truediv', 'floordiv', 'mod') and any(k == 0 for k in C.flat(C.codes(y))):
                return
            z = getattr(fxpmath, route)(x, y) if op.get('func') else {'add': lambda: x + y, 'sub': lambda: x - y, 'mul': lambda: x * y, 'truediv': lambda: x / y,
                                                                     'floordiv': lambda: x // y, 'mod': lambda: x % y}[route]()
            parents = [x, y]
        elif route == 'const':
            z = x + 1 if op.get('func') else 2 * x
        elif route in ('neg', 'abs', 'pos'):
            z = -x if route == 'neg' else abs(x) if route == 'abs' else +x
        elif route in ('inv', 'and', 'or', 'xor'):
            z = ~x if route == 'inv' else (x & 5) if route == 'and' else (x | 3) if route == 'or' else (x ^ 6)
        elif route in ('lshift', 'rshift'):
            if fx[1] > 50:
                return
            old = x.config.shifting
            x.config.shifting = op.get('shifting', 'expand')
            try:
                z = (x << 2) if route == 'lshift' else (x >> 2)
            finally:
                x.config.shifting = old
        elif route in ('sum', 'cumsum', 'max', 'min', 'sort', 'transpose', 'clip', 'diagonal', 'trace'):
            shape = C.shape_of(x)
            if shape == () or (route in ('diagonal', 'trace') and len(shape) != 2):
                return
            if route == 'clip':
                z = np.clip(x, float(x.lower) / 2, float(x.upper) / 2) if op.get('func') else x.clip(float(x.lower) / 2, float(x.upper) / 2)
            elif route == 'sort':
                z = np.sort(x)
            else:
                z = getattr(np, route)(x) if op.get('func') else getattr(x, route)()
            self.classes.append('derive:numpy')
        else:
            raise ValueError(route)
        if not isinstance(z, F):
            raise Mismatch('derive/%s/not-fxp' % route, {'type': str(type(z))})
        self.classes.append('derive:' + ('arith' if route in ('add', 'sub', 'mul', 'truediv', 'floordiv', 'mod', 'const', 'np_add', 'np_multiply', 'np_subtract') else route))
        self.independent(z, parents + [p for p in self.pool], 'derive/' + route)
        after = [snapshot(p) for p in self.pool]
        if before != after:
            i = next(i for i in range(len(before)) if before[i] != after[i])
            keys = [k for k in before[i] if before[i][k] != after[i][k]]
            raise Mismatch('derive/%s/operand-changed/%s' % (route, '+'.join(keys)), {'obj': i})
        self.derivations += 1
        self.add(z)

    def op_mutate(self, op):
        x = self.pick(op['i'])
        if x is None:
            return
        kind = op['kind']
        others = [p for p in self.pool if p is not x]
        before = [snapshot(p) for p in others]
        fmt = C.fmt_of(x)
        shape = C.shape_of(x)
        if kind == 'value':
            x4 = resolve_rel(fmt, [op['rel']])[0]
            v = float(C.v_from_x4(x4, fmt[2]))
            x(v if shape == () else np.full(shape, v))
        elif kind == 'index':
            if shape == ():
                return
            x4 = resolve_rel(fmt, [op['rel']])[0]
            v = float(C.v_from_x4(x4, fmt[2]))
            if len(shape) == 1:
                x[op['a'] % shape[0]] = v
            else:
                x[op['a'] % shape[0]][op['b'] % shape[1]] = v
        elif kind == 'config':
            name, val = op['cfg']
            setattr(x.config, name, val)
            self.classes.append('mutate:config')
        elif kind == 'flag':
            big = float(2 ** 60) * (1 if op['a'] % 2 else -1)
            x(big if shape == () else np.full(shape, big))
            self.classes.append('mutate:flag')
        elif kind == 'reset':
            x.reset()
        elif kind == 'callback':
            x.callbacks.append(Dummy())
        elif kind == 'status-direct':
            x.status['inaccuracy'] = True
        elif kind == 'readback-array':
            # arrays handed out by the conversions are the caller's: overwriting them must not reach the object
            own = snapshot(x)
            for name, how in (('call', lambda: x()), ('get_val', lambda: x.get_val()), ('astype-int', lambda: x.astype(int)), ('astype-float', lambda: x.astype(float))):
                if not (fmt[1] <= 52 and -8 <= fmt[2] <= fmt[1] + 8):
                    continue        # conversions are claimed for core-domain formats (results of arithmetic may lie outside)
                a = how()
                if isinstance(a, np.ndarray) and a.ndim >= 1 and a.flags.writeable:
                    a[...] = 99
                    self.classes.append('mutate:readback-array')
                    if snapshot(x) != own:
                        raise Mismatch('mutate/readback-array/%s/value-buffer-shared-with-conversion' % name, {'fmt': list(fmt)})
        after = [snapshot(p) for p in others]
        if before != after:
            i = next(i for i in range(len(before)) if before[i] != after[i])
            keys = [k for k in before[i] if before[i][k] != after[i][k]]
            raise Mismatch('mutate/%s/leaked-into-other-object/%s' % (kind, '+'.join(keys)), {'other_index': i})
        if self.derivations >= 2 and len(others) >= 2:
            self.nontrivial = True

    def summarize(self, ctx, trace):
        for c in self.classes:
            ctx.cls(c)
        if self.nontrivial:
            ctx.cls('history:mutation-after-2-derivations')
            ctx.nontrivial(('hist', repr(trace)))
        ctx.sample({'check': 'history', 'steps': trace[:10]}, self.nontrivial)


def check_history(ctx, case):
    return run_history(ctx, World, case)


VIEW_SELS = ['row', 'col', 'step', 'rev', 'revcol', 'tail', 'stepcol', 'rowslice']


def _view_sel(name, i, j, shape):
    """A basic (view-producing) first index of a 2-d object."""
    r, c = shape
    return {'row': i % r, 'col': (slice(None), j % c), 'step': slice(None, None, 2), 'rev': slice(None, None, -1),
            'revcol': (slice(None), slice(None, None, -1)), 'tail': slice(min(1, r - 1), None), 'stepcol': (slice(None), slice(None, None, 2)),
            'rowslice': (i % r, slice(None, None, -1))}[name]


def check_view(ctx, case):
    """x[sel][idx] = v writes through to x (sel: any basic index - a row, a column, a stepped / reversed / offset slice) and nothing else
    changes.  Reference for *where* the write lands: the same chained assignment on a numpy array of the codes."""
    fmt = tuple(case['fmt'])
    s, w, f = fmt
    r, c = case['shape']
    i, j = case['i'] % r, case['j'] % c
    selname = case.get('sel', 'row')
    F = C.Fxp()
    ctx.ev()
    ctx.cls('view-write')
    ctx.cls('view-write:' + selname)
    lo, hi = M.rng(s, w)
    k_new = int(case['k'])
    sig = 'view/%s/%s' % ('wide' if w >= 64 else 'core', selname)
    sel = _view_sel(selname, i, j, (r, c))
    model = np.array([int(k) for k in case['codes']], dtype=object).reshape(r, c)
    sub = model[sel]
    idx2 = tuple(int(a) % n for a, n in zip((case.get('a', j), case.get('b', i)), sub.shape))
    if selname == 'row':
        idx2 = (j,)
    sub[idx2] = k_new                       # numpy: basic indexing returns a view, the write lands in `model`
    want = [[int(v) for v in rw] for rw in model.tolist()]
    idx2 = idx2[0] if len(idx2) == 1 else idx2

    def do():
        base = np.array([int(k) for k in case['codes']], dtype=object if w > 62 else np.int64).reshape(r, c)
        x = F(base, s, w, f, raw=True)
        before = C.codes(x)
        if w >= 64 or case.get('raw'):
            x[sel].set_val(k_new, raw=True, index=idx2)
        else:
            x[sel][idx2] = float(M.value_of(k_new, f))
        kept = x[sel]
        return x, before, C.codes(x), C.codes(kept)
    ok, res = ctx.guard(case, do, sig_prefix=sig + '/')
    if not ok:
        return
    x, before, after, kept = res
    if after != want:
        ctx.fail(sig + '/write-through', case, {'expected': str(want), 'got': str(after), 'sel': str(sel), 'idx': str(idx2)})
        return
    want_kept = model[sel].tolist()
    if kept != want_kept:
        ctx.fail(sig + '/view-content', case, {'view': str(kept), 'expected': str(want_kept)})


def build_container(kind, elems):
    if kind == 'list':
        return list(elems)
    if kind == 'tuple':
        return tuple(elems)
    if kind == 'nlist':
        h = max(len(elems) // 2, 1)
        return [list(elems[:h]), list(elems[h:2 * h])]
    if kind == 'ntuple':
        h = max(len(elems) // 2, 1)
        return (tuple(elems[:h]), tuple(elems[h:2 * h]))
    if kind == 'array':
        return np.array(elems)
    if kind == 'array2d':
        h = max(len(elems) // 2, 1)
        return np.array([elems[:h], elems[h:2 * h]])
    raise ValueError(kind)


def check_container(ctx, case):
    fmt = tuple(case['fmt'])
    s, w, f = fmt
    F = C.Fxp()
    ctx.ev()
    codes = [int(k) for k in case['codes']]
    et = case['elem']
    if et == 'float':
        elems = [float(M.value_of(k, f)) for k in codes]
    elif et == 'int':
        elems = [int(k) for k in codes]
    elif et == 'bin':
        elems = ['0b' + M.bin_image(k, w) for k in codes]
    elif et == 'hex':
        elems = [M.hex_image(k, w) for k in codes]
    else:
        elems = [('0b' + M.bin_image(k, w)) if n % 2 else M.hex_image(k, w) for n, k in enumerate(codes)]
    if et == 'dec':
        elems = [M.frac_to_decimal_str(M.value_of(k, f)) for k in codes]
    # strings are parsed in raw mode or in value mode (the bit pattern read as a value of this format): both restore the code
    raw = (et == 'int') or (et in ('bin', 'hex', 'mixed-str') and case.get('raw', True))
    if et == 'hex' and not raw and f > 0 and False:
        raw = True
    if et in ('bin', 'hex', 'mixed-str', 'dec'):
        ctx.cls('container:strings')
        if not raw:
            ctx.cls('container:strings-value-mode')
    cont = build_container(case['cont'], elems)
    snap = copy.deepcopy(cont)
    route = case['route']
    sig = 'container/%s/%s/%s' % (case['cont'], et, route)

    def do():
        if route == 'ctor':
            return F(cont, s, w, f, raw=raw)
        x = F(None, s, w, f)
        if route == 'call' and not raw:
            return x(cont)
        if route == 'from_bin' and et == 'bin':
            bare = build_container(case['cont'], [M.bin_image(k, w) for k in codes])
            snap2 = copy.deepcopy(bare)
            y = x.from_bin(bare, raw=True)
            same = (np.array_equal(bare, snap2) if isinstance(bare, np.ndarray) else bare == snap2)
            if not same:
                raise Mismatch(sig + '/container-mutated', {'after': repr(bare)[:200]})
            return y
        return x.set_val(cont, raw=raw)
    try:
        ok, x = ctx.guard(case, do, sig_prefix=sig + '/')
    except Mismatch as m:
        ctx.fail(m.sig, case, m.detail)
        return
    if not ok:
        return
    same = (np.array_equal(cont, snap) and cont.dtype == snap.dtype) if isinstance(cont, np.ndarray) else (cont == snap and type(cont) is type(snap))
    if not same:
        ctx.fail(sig + '/container-mutated', case, {'before': repr(snap)[:200], 'after': repr(cont)[:200]})
        return
    if isinstance(cont, np.ndarray) and isinstance(x.val, np.ndarray) and x.val.ndim and np.shares_memory(cont, x.val):
        ctx.fail(sig + '/shares-memory-with-input', case, {})
        return
    h = max(len(codes) // 2, 1)
    want = codes if case['cont'] in ('list', 'tuple', 'array') else codes[:h] + codes[h:2 * h]
    if C.flat(C.codes(x)) != want:
        ctx.fail(sig + '/codes', case, {'expected': want, 'got': C.flat(C.codes(x))})


CONFIG_ENUMS = {
    'overflow': ['saturate', 'wrap'], 'rounding': ['around', 'floor', 'ceil', 'fix', 'trunc'], 'shifting': ['expand', 'trunc', 'keep'],
    'op_input_size': ['same', 'best'], 'op_sizing': ['optimal', 'same', 'fit', 'largest', 'smallest'], 'op_method': ['raw', 'repr'],
    'const_op_sizing': ['optimal', 'same', 'fit', 'largest', 'smallest'], 'array_output_type': ['fxp', 'array'], 'array_op_method': ['raw', 'repr'],
    'dtype_notation': ['fxp', 'Q'],
}
INVALID_STR = ['bogus', '', 'Saturate', 'WRAP', None, 3, 1.5, ['wrap'], True]
CONFIG_OTHER = {'max_error': [0, -1.0, -1e-9], 'n_word_max': [0, -5, 2.5, '64'], 'op_out': [3, 'x', 1.5], 'op_out_like': [3, 'x'],
                'array_op_out': [3, 'x'], 'array_op_out_like': ['y', 2]}


def check_config(ctx, case):
    from fxpmath import Config
    F = C.Fxp()
    name, bad, route = case['name'], case['bad'], case['route']
    ctx.ev()
    ctx.cls('config-invalid')
    sig = 'config/%s/%s' % (route, name)
    if isinstance(bad, dict):
        bad = None
    try:
        if route == 'attribute':
            cfg = Config()
            old = getattr(cfg, name)
            try:
                setattr(cfg, name, bad)
            except ValueError:
                if getattr(cfg, name) != old:
                    ctx.fail(sig + '/old-value-lost', case, {'now': repr(getattr(cfg, name))})
                return
            except TypeError:
                if name in ('max_error',) and getattr(cfg, name) == old:
                    return          # comparing a non-number raises TypeError before anything is stored: still rejected, nothing stored
                raise
            ctx.fail(sig + '/accepted', case, {'stored': repr(getattr(cfg, name))})
        elif route == 'update':
            cfg = Config()
            old = getattr(cfg, name)
            try:
                cfg.update(**{name: bad})
            except ValueError:
                if getattr(cfg, name) != old:
                    ctx.fail(sig + '/old-value-lost', case, {})
                return
            except TypeError:
                if name in ('max_error',) and getattr(cfg, name) == old:
                    return
                raise
            ctx.fail(sig + '/accepted', case, {'stored': repr(getattr(cfg, name))})
        elif route == 'Config()':
            try:
                Config(**{name: bad})
            except ValueError:
                return
            except TypeError:
                if name in ('max_error',):
                    return
                raise
            ctx.fail(sig + '/accepted', case, {})
        else:
            try:
                F(1.0, True, 8, 4, **{name: bad})
            except ValueError:
                return
            except TypeError:
                if name in ('max_error',):
                    return
                raise
            ctx.fail(sig + '/accepted', case, {})
    except Exception as e:                              # noqa: BLE001
        ctx.fail(sig + '/wrong-exception', case, {'exception': repr(e)[:200]})


CHECKS = {'history': check_history, 'view': check_view, 'container': check_container, 'config': check_config}


def replay(ctx, case):
    CHECKS[case['check']](ctx, case)


# ---------------------------------------------------------------- strategies
RELONE = st.tuples(st.sampled_from(['hi', 'lo', 'zero', 'mid', 'far+', 'far-']), st.integers(-6, 6)).map(list)
IDX = st.integers(0, 7)
DERIVE_ROUTES = ['ctor_sizes', 'np_add', 'np_multiply', 'np_subtract', 'like_kw', 'template', 'from_fxp', 'deepcopy', 'like', 'resize', 'add', 'sub', 'mul', 'truediv', 'floordiv', 'mod', 'const', 'neg', 'abs', 'pos',
                 'inv', 'and', 'or', 'xor', 'lshift', 'rshift', 'sum', 'cumsum', 'max', 'min', 'sort', 'transpose', 'clip', 'diagonal', 'trace', 'like', 'like_kw', 'flatten', 'ravel', 'T', 'fxp_like']
CFG_MUT = [['rounding', 'ceil'], ['rounding', 'around'], ['overflow', 'wrap'], ['overflow', 'saturate'], ['shifting', 'keep'], ['op_sizing', 'same'],
           ['op_method', 'repr'], ['const_op_sizing', 'largest'], ['dtype_notation', 'Q'], ['op_input_size', 'best'], ['array_op_method', 'raw']]


def op_strategies():
    fmt = C.st_fmt(max_w=24).map(list)
    new = st.fixed_dictionaries({'fmt': fmt, 'modes': C.st_modes().map(list), 'rel': st.lists(RELONE, min_size=1, max_size=4),
                                 'shape': st.sampled_from([0, 0, 3, 4, [2, 2], [2, 3]])})
    derive = st.fixed_dictionaries({'i': IDX, 'j': IDX, 'route': st.sampled_from(DERIVE_ROUTES), 'func': st.booleans(),
                                    'shifting': st.sampled_from(['expand', 'trunc', 'keep'])})
    mutate = st.fixed_dictionaries({'i': IDX, 'kind': st.sampled_from(['value', 'index', 'config', 'flag', 'reset', 'callback', 'status-direct', 'config', 'flag', 'readback-array']),
                                    'rel': RELONE, 'a': IDX, 'b': IDX, 'cfg': st.sampled_from(CFG_MUT)})
    return {'new': new, 'derive': derive, 'derive#2': derive, 'derive#3': derive, 'mutate': mutate, 'mutate#2': mutate}


_MACHINE = None


def machine():
    global _MACHINE
    if _MACHINE is None:
        ops = op_strategies()
        _MACHINE = build_machine(World, ops, 'history', init_strategy=('new', ops['new']))
    return _MACHINE


def task_machine(ctx, n, steps):
    run_machine(ctx, machine(), n, steps, ctx.task_seed)


@st.composite
def st_view(draw):
    wide = draw(st.booleans())
    if wide:
        w = draw(st.sampled_from([64, 65, 100, 128]))
        s = draw(st.booleans())
        fmt = (s, w, draw(st.sampled_from([0, w // 2])))
    else:
        fmt = draw(C.st_fmt(max_w=32, f_lo=0, f_hi_extra=0))
    r, c = draw(st.sampled_from([(2, 2), (2, 3), (3, 2), (1, 3), (4, 3), (3, 4)]))
    lo, hi = M.rng(fmt[0], fmt[1])
    code = st.one_of(st.sampled_from([lo, hi, 0]), st.integers(lo, hi))
    return {'check': 'view', 'fmt': list(fmt), 'shape': [r, c], 'codes': [draw(code) for _ in range(r * c)], 'i': draw(IDX), 'j': draw(IDX),
            'k': draw(code), 'raw': draw(st.booleans()), 'sel': draw(st.sampled_from(VIEW_SELS)), 'a': draw(IDX), 'b': draw(IDX)}


def body_view(ctx, case):
    ctx.nontrivial(('view', repr(sorted((k, repr(v)) for k, v in case.items()))))
    ctx.sample(case, True)
    check_view(ctx, case)


@st.composite
def st_container(draw):
    fmt = draw(C.st_fmt(max_w=24, f_lo=0, f_hi_extra=0, min_w=2))
    lo, hi = M.rng(fmt[0], fmt[1])
    n = draw(st.sampled_from([2, 4, 6]))
    et = draw(st.sampled_from(['float', 'int', 'bin', 'hex', 'mixed-str', 'bin', 'hex', 'dec']))
    cont = draw(st.sampled_from(['list', 'tuple', 'nlist', 'ntuple', 'array', 'array2d']))
    if et in ('mixed-str', 'dec') and cont in ('array', 'array2d'):
        cont = 'list'
    route = draw(st.sampled_from(['ctor', 'call', 'set_val', 'from_bin']))
    if route == 'from_bin' and cont in ('tuple', 'ntuple'):
        route = 'set_val'       # from_bin rejects tuples with a clear ValueError (nothing is built, nothing can be mutated)
    return {'check': 'container', 'fmt': list(fmt), 'codes': [draw(st.integers(lo, hi)) for _ in range(n)], 'elem': et, 'cont': cont, 'route': route,
            'raw': draw(st.booleans())}


def body_container(ctx, case):
    nt = case['elem'] in ('bin', 'hex', 'mixed-str', 'dec')
    if nt:
        ctx.nontrivial(('cont', repr(sorted((k, repr(v)) for k, v in case.items()))))
    ctx.sample(case, nt)
    check_container(ctx, case)


def task_hyp(ctx, which, n):
    if which == 'view':
        run_given(ctx, st_view(), body_view, n, ctx.task_seed)
    else:
        run_given(ctx, st_container(), body_container, n, ctx.task_seed)


def task_config(ctx):
    for name, valid in CONFIG_ENUMS.items():
        for bad in INVALID_STR:
            if bad in valid:
                continue
            for route in ('attribute', 'update', 'Config()', 'Fxp-kwarg'):
                check_config(ctx, {'check': 'config', 'name': name, 'bad': bad, 'route': route})
                ctx.nontrivial_enum(1)
    for name, bads in CONFIG_OTHER.items():
        for bad in bads:
            for route in ('attribute', 'update', 'Config()', 'Fxp-kwarg'):
                check_config(ctx, {'check': 'config', 'name': name, 'bad': bad, 'route': route})
                ctx.nontrivial_enum(1)
    ctx.sample({'check': 'config', 'name': 'overflow', 'bad': 'bogus', 'route': 'attribute'}, True)


def tasks(tier, scale=1.0):
    n, steps = (100, 25) if tier == 'quick' else (3000, 40)
    n = int(n * scale)
    out = [('machine-%d' % i, 'task_machine', {'n': n, 'steps': steps}) for i in range(12)]
    nh = int((1500 if tier == 'quick' else 60000) * scale)
    out += [('hyp-view-%d' % i, 'task_hyp', {'which': 'view', 'n': nh}) for i in range(1)]
    out += [('hyp-container-%d' % i, 'task_hyp', {'which': 'container', 'n': nh}) for i in range(2)]
    out.append(('config', 'task_config', {}))
    return out
