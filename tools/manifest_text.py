"""Per-property manifest wording (level text, trusted base, deciding technique)."""
NOT_APPLICABLE = {}
_BASE = ('Trusted base: the int/Fraction reference model in fxverif/model.py, CPython, Hypothesis, and numpy only as a container for inputs and stored integers. '
         'Sampling outside the exhaustively enumerated sub-domains: absence of a counter-example there is evidence, not proof.')
TEXT = {
    'C01': dict(
        level='Exploration with an exact independent oracle: every quarter-LSB input over 3x the range of every format with n_word<=6 (all n_frac, all 10 modes) is enumerated completely through array and scalar carriers and four store routes; formats up to 52 bits, 15 element carriers x 9 containers x 4 routes, huge floats and complex inputs are searched with boundary-constructed Hypothesis inputs. Right level because the property is a universally quantified equation whose failure regions are boundary sets that enumeration + construction reach.',
        note=_BASE + ' Inputs are restricted to values exactly representable in their carrier and to the stated core domain.',
        technique='exhaustive small-format enumeration + Hypothesis boundary-constructed inputs vs exact Fraction reference quantizer (differential oracle)'),
}
